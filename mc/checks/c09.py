"""C09 - generation, ranking and notations are bijective and mutually consistent.

E1 (sharded, exhaustive over stated finite spaces, reference = mc/ref_c09.py + refmodel.std):
  gen        Perm.of_length(n), Perm.up_to_length(n) == the (length, lex) reference sequence
  first      Perm.first(k) == reference prefix, for EVERY k in a range
  rank       unrank(r) / rank() / unrank(r - offset, n) against the position in the reference
             sequence; boundary ranks (first/last 24 of each length) for longer lengths
  scale      long permutations: ranks at every block boundary q*(m-1)! +-1 (lengths 13..26/40,
             ranks beyond 2^53), structured shapes, sizes 31..34, 255..258, 300
  rank_reject  ranks outside 0..n!-1 (and negative ranks without a length) are not accepted
  order      <, <=, >, >= between Perms == comparison of ranks (all pairs); sorted/min/max
  std        Perm.to_standard on all sequences over small alphabets, thirteen value/container
             variants (ints, floats, bools, strings, tuples, mixed, generators ...), aliases
  notation   from_string(str(p)), from_string(digits), eval(repr(p)), one_based, from_integer
             (1-based; 0-based when representable), from_iterable_validated, to_standard
  validated  from_iterable_validated accepts exactly the bijections among all tuples over
             {-1..n}^n (ValueError otherwise), TypeError for one non-integer entry
  mesh       MeshPatt.unrank/rank/of_length: bijection, order, documented bit layout, rejection
  forms      to_standard / from_iterable_validated / generators / rank / unrank / MeshPatt in every
             argument form (containers, one-shot iterators, element types, keywords, aliases)
  aliasing   whatever mutable container a query hands out is damaged in place, then asked again
  abort      _Abort raised at every call event inside an operation, then read back
E2 (BFS over histories on the process-wide memo of Perm.to_standard and the shared objects it
    hands out, and over interleavings of generators / rank calls):
  history    see StdHistory / RankHistory / GenHistory
  fresh      a slice of the explored histories is re-run in a fresh interpreter and must give
             the same canonical state (adequacy of the cache reset, determinism)
"""
from __future__ import annotations

import itertools
import json
import os
import subprocess
import sys

from .. import refmodel as R
from .. import ref_c09 as RC
from ..core import Partial, REPO, VERIF, jsonable
from ..explore import bfs

PROPERTY = "C09"
LEVEL = "model_checking"


class Part(Partial):
    """Partial that lists at most two violations per sub-check and shard (the rest is only
    counted), so that one massively failing sub-check cannot crowd the others out of the
    report."""
    __slots__ = ("persub",)

    def __init__(self):
        super().__init__()
        self.persub = {}

    def violation(self, sub, case, detail=None, sig=None):
        n = self.persub.get(sub, 0)
        self.persub[sub] = n + 1
        if n < 2:
            super().violation(sub, case, detail, sig)
        else:
            self.nviol += 1
            self.bump("violations_not_listed")


def _P():
    from permuta import Perm
    return Perm


def _M():
    from permuta import MeshPatt
    return MeshPatt


def is_perm_obj(Perm, obj, ref):
    """obj is a Perm, equal to the tuple ref, and made of genuine ints."""
    return (isinstance(obj, Perm) and tuple.__eq__(tuple(obj), tuple(ref)) is True
            and all(type(v) is int for v in obj))


def describe(obj):
    try:
        return {"type": type(obj).__name__, "value": list(obj),
                "elem_types": sorted({type(v).__name__ for v in obj})}
    except Exception:  # noqa
        return repr(obj)


def first_diff(got, ref):
    for i, (g, r) in enumerate(zip(got, ref)):
        if tuple(g) != tuple(r):
            return i
    return min(len(got), len(ref))


# --------------------------------------------------------------------------------------------
# gen / first
# --------------------------------------------------------------------------------------------

def check_gen(part, kind, n):
    Perm = _P()
    case = {"kind": kind, "n": n}
    try:
        if kind == "of_length":
            got = list(Perm.of_length(n))
            ref = list(RC.lex_perms(n))
        else:
            got = list(Perm.up_to_length(n))
            ref = RC.graded(n)
    except Exception as exc:  # noqa
        part.violation("gen", case, {"exception": repr(exc)})
        return 0
    if len(got) != len(ref) or any(not is_perm_obj(Perm, g, r) for g, r in zip(got, ref)):
        i = first_diff(got, ref)
        if i == len(got) == len(ref):
            i = next(j for j, (g, r) in enumerate(zip(got, ref)) if not is_perm_obj(Perm, g, r))
        part.violation("gen", case, {"index": i, "len_got": len(got), "len_expected": len(ref),
                                     "expected": ref[i] if i < len(ref) else None,
                                     "got": describe(got[i]) if i < len(got) else None})
    return len(ref)


def shard_gen(shard):
    kind, n = shard
    part = Part()
    cnt = check_gen(part, kind, n)
    part.add(1, 1 if n >= 2 else 0)
    part.bump("gen_items_compared", cnt)
    return part


def check_first(part, k, ref):
    Perm = _P()
    try:
        got = list(Perm.first(k))
    except Exception as exc:  # noqa
        part.violation("first", {"k": k}, {"exception": repr(exc)})
        return
    exp = ref[:k]
    if got != exp or len(got) != k or (got and not isinstance(got[-1], Perm)):
        i = first_diff(got, exp)
        part.violation("first", {"k": k}, {"index": i, "len_got": len(got),
                                           "expected": exp[i] if i < len(exp) else None,
                                           "got": describe(got[i]) if i < len(got) else None})


def shard_first(shard):
    ks, n = shard
    part = Part()
    ref = RC.graded(n)
    assert max(ks) <= len(ref)
    for k in ks:
        check_first(part, k, ref)
        part.add(1, 1 if k >= 3 else 0)
    part.bump("first_items_compared", sum(ks))
    return part


# --------------------------------------------------------------------------------------------
# rank / unrank
# --------------------------------------------------------------------------------------------

def rank_case(Perm, r, p):
    """None or a detail dict.  p = reference permutation with rank r."""
    n = len(p)
    rn = r - RC.offset(n)
    bad = {}
    try:
        u = Perm.unrank(r)
        if not is_perm_obj(Perm, u, p):
            bad["unrank(r)"] = describe(u)
    except Exception as exc:  # noqa
        bad["unrank(r)"] = repr(exc)
    try:
        got = Perm(p).rank()
        if got != r or type(got) is not int:
            bad["rank()"] = got
    except Exception as exc:  # noqa
        bad["rank()"] = repr(exc)
    try:
        u = Perm.unrank(rn, n)
        if not is_perm_obj(Perm, u, p):
            bad["unrank(r-offset,n)"] = describe(u)
    except Exception as exc:  # noqa
        bad["unrank(r-offset,n)"] = repr(exc)
    if bad:
        bad["expected_perm"] = list(p)
        bad["rank"] = r
        bad["rank_within_length"] = rn
        return bad
    return None


def shard_rank(shard):
    n, lo, hi = shard
    Perm = _P()
    part = Part()
    ref = RC.graded(n)
    nt = 0
    for r in range(lo, hi):
        p = ref[r]
        d = rank_case(Perm, r, p)
        if d is not None:
            part.violation("rank", {"r": r}, d)
        if len(p) >= 2:
            nt += 1
    part.add(hi - lo, nt)
    if lo == 0:
        for name, target in (("ind2perm", "unrank"), ("perm2ind", "rank")):
            a, b = getattr(Perm, name, None), getattr(Perm, target, None)
            try:
                same = (a.__func__ is b.__func__) if hasattr(a, "__func__") else (a is b)
            except Exception:  # noqa
                same = False
            if not same:
                ok = a is not None
                if ok:
                    try:
                        if name == "ind2perm":
                            ok = all(tuple(a(r)) == ref[r] for r in range(min(hi, 154)))
                        else:
                            ok = all(a(Perm(ref[r])) == r for r in range(min(hi, 154)))
                    except Exception:  # noqa
                        ok = False
                if not ok:
                    part.violation("rank", {"alias": name}, {"alias_of": target})
    return part


def boundary_perm(n, end, i):
    gen = RC.lex_perms(n) if end == "first" else RC.lex_perms_desc(n)
    return next(itertools.islice(gen, i, None))


def shard_rank_boundary(shard):
    n, width = shard
    Perm = _P()
    part = Part()
    for end in ("first", "last"):
        gen = RC.lex_perms(n) if end == "first" else RC.lex_perms_desc(n)
        for i, p in enumerate(itertools.islice(gen, width)):
            r = RC.offset(n) + i if end == "first" else RC.offset(n + 1) - 1 - i
            d = rank_case(Perm, r, p)
            if d is not None:
                part.violation("rank", {"n": n, "end": end, "i": i}, d)
            part.add(1, 1)
    return part


# ---- scale: long permutations, ranks beyond 2^53 (integer-only Lehmer reference) ------------

def shard_scale_rank(shard):
    """Every rank of RC.scale_ranks(n): unrank(r, n), unrank(offset + r), rank() against the
    integer-only reference; unrank strictly increasing (lexicographically) along the sorted
    family."""
    n, = shard
    Perm = _P()
    part = Part()
    off = RC.offset(n)
    prev = None
    ranks = RC.scale_ranks(n)
    for r in ranks:
        p = RC.lehmer_unrank(r, n)
        d = rank_case(Perm, off + r, p)
        if d is not None:
            part.violation("scale_rank", {"n": n, "r": r}, d)
        try:
            cur = tuple(Perm.unrank(r, n))
        except Exception:  # noqa  (already reported by rank_case)
            cur = None
        if prev is not None and cur is not None and prev[1] is not None \
                and not tuple.__lt__(prev[1], cur):
            part.violation("scale_mono", {"n": n, "r1": prev[0], "r2": r},
                           {"unrank(r1,n)": list(prev[1]), "unrank(r2,n)": list(cur),
                            "expected": "unrank(r1, n) lexicographically smaller"})
        prev = (r, cur)
    part.add(len(ranks), sum(1 for r in ranks if r >= 2 ** 53))
    part.bump("scale_ranks_at_or_above_2^53", sum(1 for r in ranks if r >= 2 ** 53))
    for p in RC.scale_perms(n):
        r = RC.rank_by_counting(p)
        assert RC.lehmer_unrank(r, n) == p          # the two references agree
        d = rank_case(Perm, off + r, p)
        if d is not None:
            part.violation("scale_perm", {"p": p}, d)
    part.add(len(RC.scale_perms(n)), len(RC.scale_perms(n)))
    return part


def scale_mono_case(Perm, n, r1, r2):
    try:
        a, b = tuple(Perm.unrank(r1, n)), tuple(Perm.unrank(r2, n))
    except Exception as exc:  # noqa
        return {"exception": repr(exc)}
    if not tuple.__lt__(a, b):
        return {"unrank(r1,n)": list(a), "unrank(r2,n)": list(b),
                "expected": "unrank(r1, n) lexicographically smaller"}
    return None


LONG_SIZES = (31, 32, 33, 34, 255, 256, 257, 258, 300)


def long_perms(n):
    """The structured shapes at a long length, thinned: identity, reverse, adjacent
    transpositions at positions 0, 1, n//2, n-2, rotations, i -> k*i mod n, layered, and
    `q then decreasing rest` for q in {0, 1, n//2, n-2, n-1}."""
    ident = tuple(range(n))
    out = [ident, ident[::-1]]
    for i in (0, 1, n // 2, n - 2):
        t = list(ident)
        t[i], t[i + 1] = t[i + 1], t[i]
        out.append(tuple(t))
    out += [ident[1:] + ident[:1], ident[-1:] + ident[:-1]]
    for k in (2, 3, 7):
        if all(n % d or k % d for d in range(2, k + 1)):
            out.append(tuple((k * i) % n for i in range(n)))
    out.append(tuple(v for b in range(0, n, 3) for v in reversed(range(b, min(n, b + 3)))))
    for q in (0, 1, n // 2, n - 2, n - 1):
        out.append((q,) + tuple(v for v in reversed(ident) if v != q))
    return list(dict.fromkeys(out))


def long_case(Perm, p):
    """Conversions and ranks of one long permutation; None or dict of failures."""
    n = len(p)
    bad = dict(notation_case(Perm, p) or {})
    bad.pop("p", None)
    r = RC.rank_by_counting(p)
    d = rank_case(Perm, RC.offset(n) + r, p)
    if d:
        bad.update({k: v for k, v in d.items() if k.startswith(("unrank", "rank()"))})

    def expect(name, thunk, ref):
        try:
            got = thunk()
        except Exception as exc:  # noqa
            bad[name] = repr(exc)
            return
        if not is_perm_obj(Perm, got, ref):
            bad[name] = describe(got) if len(ref) <= 40 else "differs from the reference"

    expect("to_standard(2v+1)", lambda: Perm.to_standard([2 * v + 1 for v in p]), p)
    tied = [v // 2 for v in p]
    expect("to_standard(v//2)", lambda: Perm.to_standard(tied), R.std(tied))
    expect("to_standard(float)", lambda: Perm.to_standard(tuple(float(v) for v in p)), p)
    # rejections by the validated constructor: out of range at the top, duplicate of the top value
    for name, t in (("validated(out of range)", p[:-1] + (n,)),
                    ("validated(duplicate)",
                     tuple(n - 2 if v == n - 1 else v for v in p))):
        try:
            got = Perm.from_iterable_validated(t)
            bad[name] = "accepted: " + repr(got)[:80]
        except ValueError:
            pass
        except Exception as exc:  # noqa
            bad[name] = repr(exc)
    return bad or None


def shard_scale_long(shard):
    n, = shard
    Perm = _P()
    part = Part()
    for p in long_perms(n):
        d = long_case(Perm, p)
        if d is not None:
            part.violation("scale_long", {"p": p}, d)
        part.add(1, 1)
    return part


def check_reject(part, r, n):
    """unrank must not hand out a permutation for a rank outside its domain (otherwise it is
    not injective on what it accepts).  Any exception is the expected answer."""
    Perm = _P()
    try:
        got = Perm.unrank(r) if n is None else Perm.unrank(r, n)
    except Exception as exc:  # noqa
        part.outcomes.add("unrank rejects with " + type(exc).__name__)
        return
    part.violation("rank_reject", {"r": r, "n": n}, {"returned": describe(got)})


def shard_rank_reject(shard):
    maxn, = shard
    part = Part()
    for n in range(0, maxn + 1):
        f = RC.fact(n)
        for r in itertools.chain(range(-f - 1, 0), range(f, 2 * f + 2)):
            check_reject(part, r, n)
            part.add(1, 1)
    for r in range(-60, 0):
        check_reject(part, r, None)
        part.add(1, 1)
    return part


# --------------------------------------------------------------------------------------------
# order
# --------------------------------------------------------------------------------------------

def order_case(Perm, a, ia, b, ib):
    A, B = Perm(a), Perm(b)
    try:
        got = (A < B, A <= B, A > B, A >= B, A == B, A != B)
    except Exception as exc:  # noqa
        return {"exception": repr(exc)}
    exp = (ia < ib, ia <= ib, ia > ib, ia >= ib, ia == ib, ia != ib)
    if got != exp:
        return {"operators": ["<", "<=", ">", ">=", "==", "!="], "expected": exp, "got": got}
    return None


def shard_order(shard):
    m, lo, hi = shard
    Perm = _P()
    part = Part()
    ref = RC.graded(m)
    for ia in range(lo, hi):
        a = ref[ia]
        for ib, b in enumerate(ref):
            d = order_case(Perm, a, ia, b, ib)
            if d is not None:
                part.violation("order", {"a": a, "b": b}, d)
        part.add(len(ref), sum(1 for b in ref if len(b) != len(a) and tuple(b) != tuple(a)
                               and (a < b) != ((len(a), a) < (len(b), b))))
    return part


ARRANGEMENTS = ("reversed", "rotated", "interleaved", "by_tuple")


def arrange(ref, name):
    if name == "reversed":
        return ref[::-1]
    if name == "rotated":
        k = len(ref) // 3
        return ref[k:] + ref[:k]
    if name == "interleaved":
        return ref[1::2] + ref[0::2][::-1]
    if name == "by_tuple":
        return sorted(ref)                  # plain tuple order: shorter is NOT smaller
    raise ValueError(name)


def check_sorted(part, n, name):
    Perm = _P()
    ref = RC.graded(n)
    objs = [Perm(p) for p in arrange(ref, name)]
    case = {"n": n, "arrangement": name}
    try:
        got = sorted(objs)
        mn, mx = min(objs), max(objs)
    except Exception as exc:  # noqa
        part.violation("sorted", case, {"exception": repr(exc)})
        return
    if [tuple(g) for g in got] != ref:
        i = first_diff(got, ref)
        part.violation("sorted", case, {"index": i, "expected": ref[i], "got": describe(got[i])})
    elif tuple(mn) != ref[0] or tuple(mx) != ref[-1]:
        part.violation("sorted", case, {"min": describe(mn), "max": describe(mx)})


def shard_sorted(shard):
    n, name = shard
    part = Part()
    check_sorted(part, n, name)
    part.add(1, 1)
    return part


def shard_adjacent(shard):
    n, lo, hi = shard
    Perm = _P()
    part = Part()
    ref = RC.graded(n)
    for i in range(lo, min(hi, len(ref) - 1)):
        d = order_case(Perm, ref[i], i, ref[i + 1], i + 1) or \
            order_case(Perm, ref[i + 1], i + 1, ref[i], i)
        if d is not None:
            part.violation("order", {"a": ref[i], "b": ref[i + 1]}, d)
        part.add(1, 1)
    return part


# --------------------------------------------------------------------------------------------
# standardisation
# --------------------------------------------------------------------------------------------

def _Fr(a, b=1):
    from fractions import Fraction
    return Fraction(a, b)


def _Dec(a):
    from decimal import Decimal
    return Decimal(a)


def _mixed(i, v):
    if i % 3 == 0:
        return v
    if i % 3 == 1:
        return float(v)
    return bool(v) if v < 2 else v


VARIANTS = {
    # name: (value map (position, value) -> object, container)
    "int": (lambda i, v: v, "tuple"),
    "float": (lambda i, v: float(v), "list"),
    "affine": (lambda i, v: 10 * v - 7, "gen"),
    "str": (lambda i, v: chr(97 + v), "str"),
    "bool": (lambda i, v: bool(v), "tuple"),          # only for sequences over {0, 1}
    "mixed": (_mixed, "tuple"),
    "pair": (lambda i, v: (v, "x"), "iter"),
    "big": (lambda i, v: v * 10 ** 20 - 5, "tuple"),
    "half": (lambda i, v: v / 2, "list"),
    "neg": (lambda i, v: v - 2, "tuple"),             # -1 and -2 have the same hash in CPython
    "fraction": (lambda i, v: _Fr(v, 2), "tuple"),    # 0, 1/2, 1, 3/2 ...: integral and not
    "decimal": (lambda i, v: _Dec(v) / 2, "list"),
    "mixed_frac": (lambda i, v: (v, _Fr(v), float(v))[i % 3], "map"),
}
VARIANT_ORDER = ("int", "float", "affine", "str", "bool", "mixed", "pair", "big", "half", "neg",
                 "fraction", "decimal", "mixed_frac")
ENTRIES = ("to_standard", "standardize", "from_iterable")


def make_arg(seq, variant):
    f, cont = VARIANTS[variant]
    vals = [f(i, v) for i, v in enumerate(seq)]
    if cont == "tuple":
        return tuple(vals)
    if cont == "list":
        return vals
    if cont == "gen":
        return (v for v in vals)
    if cont == "iter":
        return iter(vals)
    if cont == "str":
        return "".join(vals)
    if cont == "map":
        return map(lambda x: x, vals)
    raise ValueError(cont)


def check_std(part, Perm, seq, variant, entry, ref=None):
    if ref is None:
        ref = R.std(seq)
    case = {"seq": list(seq), "variant": variant, "entry": entry}
    try:
        got = getattr(Perm, entry)(make_arg(seq, variant))
    except Exception as exc:  # noqa
        part.violation("std", case, {"exception": repr(exc), "expected": ref})
        return
    if not is_perm_obj(Perm, got, ref):
        part.violation("std", case, {"expected": ref, "got": describe(got)})
    elif len(ref) <= 4:
        part.outcomes.add("std -> " + "".join(map(str, ref)))


def shard_std(shard):
    a, length, lo, hi, order = shard
    Perm = _P()
    part = Part()
    reset_hidden()
    names = VARIANT_ORDER if order == 0 else VARIANT_ORDER[::-1]
    seqs = itertools.islice(itertools.product(range(a), repeat=length), lo, hi)
    n = nt = 0
    for seq in seqs:
        ref = R.std(seq)
        binary = all(v < 2 for v in seq)
        for name in names:
            if name == "bool" and not binary:
                continue
            check_std(part, Perm, seq, name, "to_standard", ref)
            n += 1
        if order == 0:
            check_std(part, Perm, seq, "int", "standardize", ref)
            check_std(part, Perm, seq, "float", "from_iterable", ref)
            n += 2
        if len(set(seq)) < len(seq):
            nt += 1
    part.add(n, nt if order == 0 else 0)
    if lo == 0 and order == 0 and length == 4 and a >= 4:
        seq = tuple(itertools.islice(itertools.product(range(a), repeat=length), 7, 8))[0]
        part.sample({"sub": "std", "seq": seq, "expected": R.std(seq)}, cap=1)
    return part


# --------------------------------------------------------------------------------------------
# notations
# --------------------------------------------------------------------------------------------

def notation_case(Perm, p):
    """None or dict of failed conversions for the reference permutation p (a tuple)."""
    n = len(p)
    bad = {}

    def expect(name, thunk):
        try:
            got = thunk()
        except Exception as exc:  # noqa
            bad[name] = repr(exc)
            return
        if not is_perm_obj(Perm, got, p):
            bad[name] = describe(got)

    P = Perm(p)
    if n <= 10:
        expect("from_string(str(p))", lambda: Perm.from_string(str(P)))
        if n >= 1:
            expect("from_string(digits)", lambda: Perm.from_string(RC.digits0(p)))
        expect("from_iterable_validated(digits)",
               lambda: Perm.from_iterable_validated(RC.digits0(p)))
    expect("eval(repr(p))", lambda: eval(repr(P), {"Perm": Perm}))  # noqa: S307
    expect("one_based", lambda: Perm.one_based([v + 1 for v in p]))
    expect("one_based(gen)", lambda: Perm.one_based(v + 1 for v in p))
    expect("from_iterable_validated", lambda: Perm.from_iterable_validated(p))
    expect("to_standard", lambda: Perm.to_standard(p))
    expect("Perm(list)", lambda: Perm(list(p)))
    if 1 <= n <= 9:
        expect("from_integer(1-based)", lambda: Perm.from_integer(int(RC.digits1(p))))
    if 1 <= n <= 10 and (p[0] != 0 or n == 1):
        expect("from_integer(0-based)", lambda: Perm.from_integer(int(RC.digits0(p))))
    if bad:
        bad["p"] = list(p)
    return bad or None


def run_notation(part, Perm, perms):
    n = nt = 0
    for p in perms:
        d = notation_case(Perm, p)
        if d is not None:
            part.violation("notation", {"p": p}, d)
        n += 1
        if len(p) >= 2:
            nt += 1
    part.add(n, nt)


def shard_notation(shard):
    kind = shard[0]
    Perm = _P()
    part = Part()
    if kind == "graded":
        _, n, lo, hi = shard
        run_notation(part, Perm, RC.graded(n)[lo:hi])
    elif kind == "ends":
        _, n, width = shard
        run_notation(part, Perm, itertools.islice(RC.lex_perms(n), width))
        run_notation(part, Perm, itertools.islice(RC.lex_perms_desc(n), width))
    elif kind == "prefix":
        _, n, prefix = shard
        run_notation(part, Perm, RC.lex_perms_with_prefix(n, prefix))
    if kind == "graded" and shard[2] == 0:
        # the one alias group of one_based
        for name in ("one", "proper", "scientific"):
            f = getattr(Perm, name, None)
            try:
                ok = f is not None and tuple(f((3, 1, 2))) == (2, 0, 1)
            except Exception:  # noqa
                ok = False
            if not ok:
                part.violation("notation", {"alias": name}, {"alias_of": "one_based"})
        # epsilon
        try:
            e = Perm.from_string("ε")
            if not is_perm_obj(Perm, e, ()):
                part.violation("notation", {"p": []}, {"from_string(epsilon)": describe(e)})
        except Exception as exc:  # noqa
            part.violation("notation", {"p": []}, {"from_string(epsilon)": repr(exc)})
    return part


# --------------------------------------------------------------------------------------------
# validated constructor
# --------------------------------------------------------------------------------------------

FORMS = ("tuple", "list", "gen", "str")


def make_form(t, form):
    if form == "tuple":
        return tuple(t)
    if form == "list":
        return list(t)
    if form == "gen":
        return (v for v in t)
    if form == "str":
        return "".join(str(v) for v in t)
    raise ValueError(form)


def check_validated(part, Perm, t, form):
    exp = RC.is_bijection(t)
    case = {"t": list(t), "form": form}
    try:
        got = Perm.from_iterable_validated(make_form(t, form))
    except ValueError as exc:
        if exp:
            part.violation("validated", case, {"expected": "accepted", "exception": repr(exc)})
        part.outcomes.add("from_iterable_validated: ValueError " + str(exc).split(":")[0])
        return
    except Exception as exc:  # noqa
        part.violation("validated", case,
                       {"expected": "accepted" if exp else "ValueError", "exception": repr(exc)})
        return
    if not exp:
        part.violation("validated", case, {"expected": "ValueError", "returned": describe(got)})
    elif not is_perm_obj(Perm, got, t):
        part.violation("validated", case, {"expected": list(t), "returned": describe(got)})


def shard_validated(shard):
    n, lo, hi = shard
    Perm = _P()
    part = Part()
    cnt = nt = 0
    for t in itertools.islice(itertools.product(range(-1, n + 1), repeat=n), lo, hi):
        for form in FORMS:
            if form == "str" and any(v < 0 or v > 9 for v in t):
                continue
            check_validated(part, Perm, t, form)
            cnt += 1
        bij = RC.is_bijection(t)
        if not bij or n >= 2:
            nt += 1
    part.add(cnt, nt)
    return part


BAD_VALUES = {"None": None, "float_int": 1.0, "float": 0.5, "str": "1", "tuple": (0,),
              "complex": 1j}


def check_validated_type(part, Perm, p, i, badname):
    t = list(p)
    t[i] = BAD_VALUES[badname]
    case = {"p": list(p), "i": i, "bad": badname}
    try:
        got = Perm.from_iterable_validated(tuple(t))
    except TypeError:
        return
    except Exception as exc:  # noqa
        part.violation("validated_type", case, {"expected": "TypeError", "exception": repr(exc)})
        return
    part.violation("validated_type", case, {"expected": "TypeError", "returned": repr(got)})


def shard_validated_type(shard):
    maxn, = shard
    Perm = _P()
    part = Part()
    for n in range(1, maxn + 1):
        for p in RC.lex_perms(n):
            for i in range(n):
                for badname in BAD_VALUES:
                    check_validated_type(part, Perm, p, i, badname)
                    part.add(1, 1)
    return part


# --------------------------------------------------------------------------------------------
# mesh patterns
# --------------------------------------------------------------------------------------------

def valid_shading(k, sh):
    return all(isinstance(c, tuple) and len(c) == 2 and 0 <= c[0] <= k and 0 <= c[1] <= k
               for c in sh)


def mesh_case(Perm, MeshPatt, perm, r, seen=None):
    """Returns (bij_detail, layout_detail)."""
    k = len(perm)
    bij, lay = {}, {}
    try:
        m = MeshPatt.unrank(Perm(perm), r)
    except Exception as exc:  # noqa
        return {"unrank": repr(exc)}, None
    if not isinstance(m, MeshPatt) or tuple(m.pattern) != tuple(perm):
        bij["pattern"] = repr(m)
    sh = frozenset(m.shading)
    if not valid_shading(k, sh):
        bij["shading"] = sorted(sh)
    if seen is not None:
        if sh in seen:
            bij["duplicate_shading"] = sorted(sh)
        seen.add(sh)
    try:
        rr = m.rank()
        if rr != r:
            bij["rank(unrank(r))"] = rr
    except Exception as exc:  # noqa
        bij["rank(unrank(r))"] = repr(exc)
    ref = RC.shading_of_number(k, r)
    if sh != ref:
        lay["unrank"] = {"expected": sorted(ref), "got": sorted(sh)}
    try:
        m2 = MeshPatt(Perm(perm), sorted(ref))
        r2 = m2.rank()
        if r2 != r:
            lay["rank"] = {"shading": sorted(ref), "expected": r, "got": r2}
        u2 = MeshPatt.unrank(Perm(perm), r2)
        if u2 != m2 or frozenset(u2.shading) != ref:
            bij["unrank(rank(m))"] = {"m": sorted(ref), "rank": r2, "back": sorted(u2.shading)}
    except Exception as exc:  # noqa
        bij["rank of constructed"] = repr(exc)
    return bij or None, lay or None


def report_mesh(part, perm, r, bij, lay):
    if bij:
        part.violation("mesh_bij", {"perm": perm, "r": r}, bij)
    if lay:
        part.violation("mesh_layout", {"perm": perm, "r": r}, lay)


def check_mesh_of_length(part, k, patt, limit=None):
    """MeshPatt.of_length(k[, patt]) yields unrank(perm, i) for perm in lex order, i ascending,
    nothing else.  Streaming (the k = 3 list has 393 216 members)."""
    Perm, MeshPatt = _P(), _M()
    case = {"k": k, "patt": patt}
    if limit is not None:
        case["limit"] = limit            # only the first `limit` items (big grids)
    perms = [tuple(patt)] if patt is not None else list(RC.lex_perms(k))
    total = 1 << ((k + 1) ** 2)
    cnt = 0
    try:
        it = MeshPatt.of_length(k) if patt is None else MeshPatt.of_length(k, Perm(patt))
        if limit is not None:
            it = itertools.islice(it, limit)
        for i, m in enumerate(it):
            pi, r = divmod(i, total)
            if pi >= len(perms):
                part.violation("mesh_of_length", case, {"extra_item_at": i, "item": repr(m)})
                return cnt
            if (not isinstance(m, MeshPatt) or tuple(m.pattern) != perms[pi]
                    or not isinstance(m.pattern, Perm)
                    or frozenset(m.shading) != RC.shading_of_number(k, r)):
                # order demanded: i-th shading of the pattern = shading with rank i
                try:
                    rk = m.rank()
                except Exception as exc:  # noqa
                    rk = repr(exc)
                if (isinstance(m, MeshPatt) and tuple(m.pattern) == perms[pi] and rk == r
                        and valid_shading(k, m.shading)):
                    part.violation("mesh_layout", {"perm": perms[pi], "r": r},
                                   {"of_length": sorted(m.shading),
                                    "expected": sorted(RC.shading_of_number(k, r))})
                else:
                    part.violation("mesh_of_length", case,
                                   {"index": i, "expected_pattern": perms[pi],
                                    "expected_rank": r, "got": repr(m), "got_rank": rk})
                return cnt
            cnt += 1
    except Exception as exc:  # noqa
        part.violation("mesh_of_length", case, {"exception": repr(exc), "after": cnt})
        return cnt
    expected = total * len(perms) if limit is None else min(limit, total * len(perms))
    if cnt != expected:
        part.violation("mesh_of_length", case, {"count": cnt, "expected": expected})
    return cnt


def sparse_numbers(k, low):
    """Sorted: every number below `low`, every number with at most 2 bits set or at most 2 bits
    clear among the (k+1)^2, and the prefixes 2^i - 1."""
    nbits = (k + 1) ** 2
    full = (1 << nbits) - 1
    nums = set(range(min(low, full + 1)))
    for c in range(0, 3):
        for bits in itertools.combinations(range(nbits), c):
            v = sum(1 << b for b in bits)
            nums.add(v)
            nums.add(full ^ v)
    for i in range(nbits + 1):
        nums.add((1 << i) - 1)
    return sorted(nums)


def big_family(k):
    """Structured ranks for grids too big to enumerate (k >= 4), sorted.  With N = (k+1)^2 bits:
    every number with at most 2 bits set, with at most 2 bits clear; 2^i - 1 and 2^i; every full
    row and full column of cells and their complements; every number whose set bits lie inside
    one aligned window of 8 bits (bits 8w..8w+7), and its complement.  Sparse and dense, low
    and high: whatever chunk size a decoder works in, some member has an empty (or full) chunk
    below a non-empty one."""
    nbits = (k + 1) ** 2
    full = (1 << nbits) - 1
    nums = set()
    for c in range(0, 3):
        for bits in itertools.combinations(range(nbits), c):
            v = sum(1 << b for b in bits)
            nums.add(v)
            nums.add(full ^ v)
    for i in range(nbits + 1):
        nums.add((1 << i) - 1)
    for line in range(k + 1):
        col = sum(1 << RC.cell_bit(k, line, y) for y in range(k + 1))
        row = sum(1 << RC.cell_bit(k, x, line) for x in range(k + 1))
        nums.update((col, row, full ^ col, full ^ row))
    for w in range(0, nbits, 8):
        for val in range(1, 256):
            v = val << w
            if v <= full:
                nums.add(v)
                nums.add(full ^ v)
    return sorted(nums)


def big_patterns(k):
    """The identity and one non-involution (the layout does not depend on the pattern)."""
    return [tuple(range(k)), tuple(range(1, k)) + (0,)]


def shard_mesh(shard):
    kind = shard[0]
    Perm, MeshPatt = _P(), _M()
    part = Part()
    if kind in ("all", "sparse+of_length"):
        _, perm = shard
        k = len(perm)
        total = 1 << ((k + 1) ** 2)
        seen = set()
        nums = range(total) if kind == "all" else sparse_numbers(k, 4096)
        for r in nums:
            bij, lay = mesh_case(Perm, MeshPatt, perm, r, seen)
            report_mesh(part, perm, r, bij, lay)
        if len(seen) != len(nums):
            part.violation("mesh_bij", {"perm": perm, "r": None},
                           {"distinct_shadings": len(seen), "expected": len(nums)})
        part.add(len(nums), len(nums) - 1)
        cnt = check_mesh_of_length(part, k, perm)
        part.add(1, 1)
        part.bump("mesh_of_length_items", cnt)
        if k == 2 and perm == (1, 0):
            part.sample({"sub": "mesh", "perm": perm, "r": 386,
                         "shading": sorted(RC.shading_of_number(2, 386))}, cap=1)
    elif kind == "sparse":
        # k = 4: all numbers with <= 2 or >= 23 of the 25 bits set, and the prefixes 2^i - 1
        _, perm = shard
        k = len(perm)
        nums = sparse_numbers(k, 0)
        seen = set()
        for r in nums:
            bij, lay = mesh_case(Perm, MeshPatt, perm, r, seen)
            report_mesh(part, perm, r, bij, lay)
        part.add(len(nums), len(nums) - 1)
    elif kind == "big":
        _, perm = shard
        k = len(perm)
        nums = big_family(k)
        seen = set()
        for r in nums:
            bij, lay = mesh_case(Perm, MeshPatt, perm, r, seen)
            report_mesh(part, perm, r, bij, lay)
        if len(seen) != len(nums):
            part.violation("mesh_bij", {"perm": perm, "r": None},
                           {"distinct_shadings": len(seen), "expected": len(nums)})
        part.add(len(nums), len(nums) - 1)
        total = 1 << ((k + 1) ** 2)
        for r in (-2, -1, total, total + 1, 2 * total):
            check_mesh_reject(part, perm, r)
            part.add(1, 1)
        cnt = check_mesh_of_length(part, k, perm, limit=4096)
        part.add(1, 1)
        part.bump("mesh_of_length_items", cnt)
        part.bump("mesh_big_grid_ranks", len(nums))
    elif kind == "of_length":
        _, k = shard
        cnt = check_mesh_of_length(part, k, None)
        part.add(1, 1)
        part.bump("mesh_of_length_items", cnt)
    elif kind == "reject":
        _, maxk = shard
        for k in range(0, maxk + 1):
            total = 1 << ((k + 1) ** 2)
            for perm in RC.lex_perms(k):
                for r in (-2, -1, total, total + 1, 2 * total):
                    check_mesh_reject(part, perm, r)
                    part.add(1, 1)
    return part


def check_mesh_reject(part, perm, r):
    Perm, MeshPatt = _P(), _M()
    try:
        got = MeshPatt.unrank(Perm(perm), r)
    except Exception as exc:  # noqa
        part.outcomes.add("MeshPatt.unrank rejects with " + type(exc).__name__)
        return
    part.violation("mesh_reject", {"perm": perm, "r": r}, {"returned": repr(got)})


# --------------------------------------------------------------------------------------------
# FORMS : the same logical input in every argument form
# --------------------------------------------------------------------------------------------

def _std_containers(seq):
    """(name, thunk building a NEW argument each time) for an int sequence."""
    import array
    import collections
    seq = tuple(seq)
    out = [("tuple", lambda: seq), ("list", lambda: list(seq)), ("iter", lambda: iter(list(seq))),
           ("genexpr", lambda: (v for v in seq)), ("map", lambda: map(int, seq)),
           ("reversed", lambda: reversed(seq[::-1])), ("deque", lambda: collections.deque(seq)),
           ("array", lambda: array.array("q", seq)), ("bytes", lambda: bytes(seq)),
           ("bytearray", lambda: bytearray(seq)), ("chain", lambda: itertools.chain(seq[:1], seq[1:])),
           ("list_subclass", lambda: _ListSub(seq))]
    if len(set(seq)) == len(seq):
        out.append(("dict_keys", lambda: dict.fromkeys(seq).keys()))
        out.append(("dict", lambda: dict.fromkeys(seq)))
    if seq == tuple(range(len(seq))):
        out.append(("range", lambda: range(len(seq))))
    return out


class _ListSub(list):
    pass


FORM_TYPES = {
    "float": float,
    "fraction": lambda v: _Fr(v),
    "float_frac": lambda v: v + 0.5,
    "fraction_frac": lambda v: _Fr(2 * v + 1, 2),
    "str": lambda v: chr(97 + v),
}


def check_std_form(part, Perm, seq, cname, tname, how):
    """how: 'pos' | 'kw' | alias name."""
    seq = tuple(seq)
    ref = R.std(seq)
    case = {"seq": list(seq), "container": cname, "type": tname, "how": how}
    try:
        if tname == "int":
            arg = dict(_std_containers(seq))[cname]()
        else:
            vals = [FORM_TYPES[tname](v) for v in seq]
            arg = {"list": lambda: vals, "genexpr": lambda: (v for v in vals),
                   "map": lambda: map(lambda x: x, vals), "tuple": lambda: tuple(vals)}[cname]()
        if how == "pos":
            got = Perm.to_standard(arg)
        elif how == "kw":
            got = Perm.to_standard(iterable=arg)
        else:
            got = getattr(Perm, how)(arg)
    except Exception as exc:  # noqa
        part.violation("std_forms", case, {"exception": repr(exc), "expected": ref})
        return
    if not is_perm_obj(Perm, got, ref):
        part.violation("std_forms", case, {"expected": ref, "got": describe(got)})


def std_form_plan(seq):
    for cname, _ in _std_containers(seq):
        yield cname, "int", "pos"
    yield "tuple", "int", "kw"
    yield "genexpr", "int", "standardize"
    yield "list", "int", "from_iterable"
    for tname in FORM_TYPES:
        for cname in ("list", "genexpr", "map", "tuple"):
            yield cname, tname, "pos"


def shard_std_forms(shard):
    a, length, lo, hi = shard
    Perm = _P()
    part = Part()
    reset_hidden()
    n = nt = 0
    for seq in itertools.islice(itertools.product(range(a), repeat=length), lo, hi):
        for cname, tname, how in std_form_plan(seq):
            check_std_form(part, Perm, seq, cname, tname, how)
            n += 1
        if len(set(seq)) < len(seq):
            nt += 1
    part.add(n, nt)
    return part


def _validated_forms(t):
    import array
    import collections
    t = tuple(t)
    out = [("iter", lambda: iter(list(t))), ("map", lambda: map(int, t)),
           ("deque", lambda: collections.deque(t)), ("reversed", lambda: reversed(t[::-1])),
           ("array", lambda: array.array("q", t)), ("kw", None), ("list_subclass", lambda: _ListSub(t)),
           ("perm_object", None)]
    if all(0 <= v < 256 for v in t):
        out.append(("bytes", lambda: bytes(t)))
    if len(set(t)) == len(t):
        out.append(("dict_keys", lambda: dict.fromkeys(t).keys()))
    return out


VALIDATED_TYPES = {
    "float": float,
    "fraction": lambda v: _Fr(v),
    "decimal": lambda v: _Dec(v),
    "str_elements": str,
    "float_frac": lambda v: v + 0.5,
}


def check_validated_form(part, Perm, t, fname):
    t = tuple(t)
    exp = RC.is_bijection(t)
    case = {"t": list(t), "form": fname}
    try:
        if fname == "kw":
            got = Perm.from_iterable_validated(iterable=t)
        elif fname == "perm_object":
            got = Perm.from_iterable_validated(Perm(t))
        elif fname in VALIDATED_TYPES:
            # every entry replaced by an equal value of a non-integer type: never a permutation
            vals = [VALIDATED_TYPES[fname](v) for v in t]
            try:
                got = Perm.from_iterable_validated(vals)
            except TypeError:
                return
            except ValueError as exc:
                if exp:       # the integers behind them ARE a bijection: only the type is wrong
                    part.violation("validated_forms", case,
                                   {"expected": "TypeError", "exception": repr(exc)})
                return
            part.violation("validated_forms", case,
                           {"expected": "TypeError", "returned": describe(got)})
            return
        else:
            got = Perm.from_iterable_validated(dict(_validated_forms(t))[fname]())
    except ValueError as exc:
        if exp:
            part.violation("validated_forms", case, {"expected": "accepted", "exception": repr(exc)})
        return
    except Exception as exc:  # noqa
        part.violation("validated_forms", case,
                       {"expected": "accepted" if exp else "ValueError", "exception": repr(exc)})
        return
    if not exp:
        part.violation("validated_forms", case, {"expected": "ValueError", "returned": describe(got)})
    elif not is_perm_obj(Perm, got, t):
        part.violation("validated_forms", case, {"expected": list(t), "returned": describe(got)})


def shard_validated_forms(shard):
    n, lo, hi = shard
    Perm = _P()
    part = Part()
    cnt = nt = 0
    for t in itertools.islice(itertools.product(range(-1, n + 1), repeat=n), lo, hi):
        names = [f for f, _ in _validated_forms(t)]
        if n >= 1:
            names += list(VALIDATED_TYPES)
        for fname in names:
            check_validated_form(part, Perm, t, fname)
            cnt += 1
        nt += 1
    part.add(cnt, nt)
    return part


def check_entry_forms(part):
    """Keyword / positional / alias forms of the generators and of rank/unrank, and the argument
    forms of one_based, MeshPatt(..., shading).rank() and MeshPatt.unrank/of_length."""
    Perm, MeshPatt = _P(), _M()
    ref = RC.graded(5)
    n_cases = 0

    def expect(name, thunk, exp, conv=lambda x: [tuple(v) for v in x]):
        nonlocal n_cases
        n_cases += 1
        try:
            got = conv(thunk())
        except Exception as exc:  # noqa
            part.violation("entry_forms", {"call": name}, {"exception": repr(exc)})
            return
        if got != exp:
            part.violation("entry_forms", {"call": name}, {"expected": exp, "got": got})

    one = lambda x: tuple(x)  # noqa: E731
    for n in range(0, 5):
        lp = list(RC.lex_perms(n))
        expect("of_length(length=%d)" % n, lambda: Perm.of_length(length=n), lp)
        expect("up_to_length(length=%d)" % n, lambda: Perm.up_to_length(length=n), RC.graded(n))
    for k in (0, 1, 5, 34):
        expect("first(count=%d)" % k, lambda: Perm.first(count=k), ref[:k])
    for r in range(0, 34):
        p = ref[r]
        n = len(p)
        rn = r - RC.offset(n)
        expect("unrank(number=%d)" % r, lambda: Perm.unrank(number=r), p, one)
        expect("unrank(%d, length=%d)" % (rn, n), lambda: Perm.unrank(rn, length=n), p, one)
        expect("unrank(number=%d, length=%d)" % (rn, n),
               lambda: Perm.unrank(number=rn, length=n), p, one)
        expect("unrank(length=%d, number=%d)" % (n, rn),
               lambda: Perm.unrank(length=n, number=rn), p, one)
        expect("ind2perm(%d)" % r, lambda: Perm.ind2perm(r), p, one)
        expect("unrank(%d, None)" % r, lambda: Perm.unrank(r, None), p, one)
        expect("perm2ind %s" % (p,), lambda: Perm(p).perm2ind(), r, lambda x: x)
        expect("Perm.rank(Perm(%s))" % (p,), lambda: Perm.rank(Perm(p)), r, lambda x: x)
        expect("Perm(list).rank %s" % (p,), lambda: Perm(list(p)).rank(), r, lambda x: x)
        expect("Perm(iter).rank %s" % (p,), lambda: Perm(iter(p)).rank(), r, lambda x: x)
        ob = [v + 1 for v in p]
        for fname, mk in (("tuple", lambda: tuple(ob)), ("iter", lambda: iter(ob)),
                          ("map", lambda: map(int, ob)), ("kw", None)):
            if fname == "kw":
                expect("one_based(iterable=%s)" % (ob,), lambda: Perm.one_based(iterable=ob), p, one)
            else:
                expect("one_based(%s %s)" % (fname, ob), lambda: Perm.one_based(mk()), p, one)
        for alias in ("one", "proper", "scientific"):
            expect("%s(%s)" % (alias, ob), lambda: getattr(Perm, alias)(ob), p, one)
    # shading forms for MeshPatt.rank, keyword forms of MeshPatt.unrank / of_length
    for k in range(0, 3):
        total = 1 << ((k + 1) ** 2)
        for perm in RC.lex_perms(k):
            P = Perm(perm)
            for r in range(total):
                cells = sorted(RC.shading_of_number(k, r))
                forms = (("list", lambda: list(cells)), ("reversed_list", lambda: cells[::-1]),
                         ("set", lambda: set(cells)), ("frozenset", lambda: frozenset(cells)),
                         ("generator", lambda: (c for c in cells)),
                         ("repeated", lambda: cells + cells[:1] + cells[-1:]),
                         ("tuple", lambda: tuple(cells)), ("dict_keys", lambda: dict.fromkeys(cells)))
                for fname, mk in forms:
                    expect("MeshPatt(%s, %s %d).rank()" % (perm, fname, r),
                           lambda: MeshPatt(P, mk()).rank(), r, lambda x: x)
                expect("MeshPatt(pattern=, shading=) %s %d" % (perm, r),
                       lambda: MeshPatt(pattern=P, shading=cells).rank(), r, lambda x: x)
                expect("MeshPatt.unrank(pattern=, number=) %s %d" % (perm, r),
                       lambda: MeshPatt.unrank(pattern=P, number=r).shading,
                       RC.shading_of_number(k, r), frozenset)
                expect("MeshPatt.unrank(tuple-built Perm) %s %d" % (perm, r),
                       lambda: MeshPatt.unrank(Perm(list(perm)), r).shading,
                       RC.shading_of_number(k, r), frozenset)
        if k <= 1:
            exp = [(tuple(perm), r) for perm in RC.lex_perms(k) for r in range(total)]
            expect("MeshPatt.of_length(length=%d)" % k, lambda: MeshPatt.of_length(length=k), exp,
                   lambda it: [(tuple(m.pattern), RC.number_of_shading(k, m.shading)) for m in it])
            for perm in RC.lex_perms(k):
                expect("MeshPatt.of_length(length=%d, patt=%s)" % (k, perm),
                       lambda: MeshPatt.of_length(length=k, patt=Perm(perm)),
                       [(tuple(perm), r) for r in range(total)],
                       lambda it: [(tuple(m.pattern), RC.number_of_shading(k, m.shading))
                                   for m in it])
    return n_cases


def shard_entry_forms(shard):
    which, = shard
    part = Part()
    if which == 0:
        n = check_entry_forms(part)
        part.add(n, n)
    return part


# --------------------------------------------------------------------------------------------
# FRESH : damage whatever mutable container a query hands out, ask again
# --------------------------------------------------------------------------------------------

def _alias_queries():
    Perm, MeshPatt = _P(), _M()
    g = RC.graded(4)
    conv = lambda it: [tuple(x) for x in it]  # noqa: E731
    mconv = lambda it: [(tuple(m.pattern), tuple(sorted(m.shading))) for m in it]  # noqa: E731
    out = []
    for n in range(0, 5):
        lp = list(RC.lex_perms(n))
        out.append(("of_length(%d)" % n, lp, conv,
                    [lambda n=n: Perm.of_length(n), lambda n=n: Perm.of_length(length=n),
                     lambda n=n: (p for p in Perm.up_to_length(n) if len(p) == n),
                     lambda n=n: itertools.islice(Perm.first(RC.offset(n + 1)), RC.offset(n), None)]))
    for n in range(0, 4):
        out.append(("up_to_length(%d)" % n, RC.graded(n), conv,
                    [lambda n=n: Perm.up_to_length(n), lambda n=n: Perm.first(RC.offset(n + 1))]))
    for k in (0, 1, 5, 10, 34):
        out.append(("first(%d)" % k, g[:k], conv,
                    [lambda k=k: Perm.first(k), lambda k=k: Perm.first(count=k),
                     lambda k=k: itertools.islice(Perm.up_to_length(4), k)]))
    for k in (0, 1):
        total = 1 << ((k + 1) ** 2)
        exp = [(tuple(p), tuple(sorted(RC.shading_of_number(k, r))))
               for p in RC.lex_perms(k) for r in range(total)]
        out.append(("MeshPatt.of_length(%d)" % k, exp, mconv,
                    [lambda k=k: MeshPatt.of_length(k),
                     lambda k=k: (m for p in Perm.of_length(k) for m in MeshPatt.of_length(k, p))]))
    for perm, r in (((0,), 9), ((1, 0), 386), ((), 1)):
        exp = sorted(RC.shading_of_number(len(perm), r))
        out.append(("MeshPatt.unrank(%s, %d).shading" % (perm, r), exp, lambda x: sorted(x),
                    [lambda perm=perm, r=r: MeshPatt.unrank(Perm(perm), r).shading,
                     lambda perm=perm, r=r: next(itertools.islice(
                         MeshPatt.of_length(len(perm), Perm(perm)), r, None)).shading]))
    for seq in ((1, 0, 2), (0, 0, 1), ()):
        out.append(("to_standard(%s)" % (seq,), list(R.std(seq)), list,
                    [lambda seq=seq: Perm.to_standard(seq), lambda seq=seq: Perm.standardize(list(seq)),
                     lambda seq=seq: Perm.to_standard(tuple(float(v) for v in seq))]))
    for r in (0, 5, 33):
        out.append(("unrank(%d)" % r, list(g[r]), list,
                    [lambda r=r: Perm.unrank(r), lambda r=r: Perm.ind2perm(r)]))
    return out


DAMAGES = ("clear", "append", "reverse", "pop")


def _damage(obj, how):
    """In-place damage of a mutable container (and of mutable members); False if obj is not one."""
    import collections
    done = False
    if isinstance(obj, (list, collections.deque, bytearray)):
        if how == "clear":
            obj.clear()
        elif how == "append":
            obj.append(obj[0] if len(obj) else 0)
        elif how == "reverse":
            obj.reverse()
            done = len(obj) > 1
            if not done:
                obj.append(0)
        elif how == "pop" and len(obj):
            obj.pop()
        done = True
    elif isinstance(obj, set):
        if how == "clear" or not obj:
            obj.clear()
            obj.add(("damaged",))
        else:
            obj.pop()
        done = True
    elif isinstance(obj, dict):
        obj.clear()
        done = True
    return done


def check_aliasing(part, half=None):
    """For every query: take what it returns.  If that is a mutable container (list, deque, set,
    dict - the library returns generators / tuples / frozensets today) it is compared, damaged in
    place in each of DAMAGES, and the query is repeated along every route; an iterator is
    consumed and the routes are asked again.  Nested members are damaged as well."""
    n = 0
    for qi, (name, exp, conv, routes) in enumerate(_alias_queries()):
        if half is not None and qi % 2 != half:
            continue
        for ri in range(len(routes)):
            for how in DAMAGES:
                n += 1
                case = {"query": name, "route": ri, "damage": how}
                try:
                    res = routes[ri]()
                    got = conv(res) if not isinstance(res, (list, set, dict)) else conv(list(res))
                    if got != exp:
                        part.violation("aliasing", case, {"stage": "first answer",
                                                          "expected": exp, "got": got})
                        continue
                    damaged = _damage(res, how)
                    if isinstance(res, (list, tuple)):
                        for member in res:
                            damaged = _damage(member, how) or damaged
                            damaged = _damage(getattr(member, "shading", None), how) or damaged
                    if damaged:
                        part.bump("aliasing_containers_damaged")
                    for rj in range(len(routes)):
                        again = routes[rj]()
                        got = conv(list(again)) if isinstance(again, (list, set, dict)) \
                            else conv(again)
                        if got != exp:
                            part.violation("aliasing", case,
                                           {"stage": "asked again by route %d" % rj,
                                            "damaged_a_container": damaged,
                                            "expected": exp, "got": got})
                            break
                except Exception as exc:  # noqa
                    part.violation("aliasing", case, {"exception": repr(exc)})
    return n


def shard_aliasing(shard):
    half, = shard
    part = Part()
    reset_hidden()
    n = check_aliasing(part, half)
    part.add(n, n)
    return part


# --------------------------------------------------------------------------------------------
# ABORT : an exception out of the middle of an operation (bound: one injection per execution)
# --------------------------------------------------------------------------------------------

class _Abort(BaseException):
    pass


def _run_with_abort(fn, k, root):
    """Run fn(); raise _Abort at the k-th 'call' event of a frame whose code lives under root
    (k = None: never).  Returns (finished?, number of such events seen)."""
    seen = [0]

    def tracer(frame, event, arg):
        if event == "call" and frame.f_code.co_filename.startswith(root):
            seen[0] += 1
            if seen[0] == k:
                sys.settrace(None)
                raise _Abort()
        return None

    sys.settrace(tracer)
    try:
        fn()
        return True, seen[0]
    except _Abort:
        return False, seen[0]
    finally:
        sys.settrace(None)


ABORT_KEYS = [((1, 0, 2), "tuple"), ((1.0, 0.0, 2.0), "list"), ((5, 3, 9), "gen"), ("bac", "str"),
              ((1, 0, 1), "tuple"), ((1, 3, 0, 2), "tuple"), ((), "tuple"), ((0.0,), "tuple")]
ABORT_TEXT = (2, 1, 0, 3, 4)
ABORT_OPS = ([("std", i) for i in range(len(ABORT_KEYS))]
             + [("patt_shared", i) for i in (0, 1, 5)] + [("patt_own", i) for i in (0, 5)]
             + [("text_shared", 5)] + [("inv", 0), ("inv", 5)]
             + [("unrank", r) for r in (0, 4, 34, 153)]
             + [("unrank_n", 5, 3), ("unrank_n", 0, 4), ("unrank_n", 119, 5)]
             + [("rank", 2), ("rank", 4), ("rank", 5)]
             + [("first", 6), ("first", 12), ("up_to_length", 2), ("of_length", 3)]
             + [("two_firsts", 4, 7)]
             + [("mesh_unrank", 2), ("mesh_rank", 2), ("mesh_of_length", 1)]
             + [("from_integer", 213), ("validated", 0), ("from_string", 0), ("one_based", 0),
                ("str_repr", 5)])
ABORT_STATES = ("fresh", "warm")


class AbortRig:
    """One prepared situation: the objects an operation works on, the operation itself, and the
    read-back battery (same objects, fresh equal objects, related observers)."""

    def __init__(self, state, op):
        self.state, self.op = state, tuple(op)
        self.Perm, self.MeshPatt = _P(), _M()
        self.rh = RankHistory()
        Perm = self.Perm
        reset_hidden()
        if state == "warm":
            self.battery(None)
        kind = self.op[0]
        self.shared = self.own = None
        if kind in ("patt_shared", "text_shared", "inv"):
            self.shared = Perm.to_standard(make_key(ABORT_KEYS[self.op[1]]))
        if kind == "patt_own":
            self.own = Perm(R.std(tuple(make_key(ABORT_KEYS[self.op[1]]))))

    def run(self):
        Perm, MeshPatt, op = self.Perm, self.MeshPatt, self.op
        kind = op[0]
        if kind == "std":
            Perm.to_standard(make_key(ABORT_KEYS[op[1]]))
        elif kind == "patt_shared":
            list(self.shared.occurrences_in(Perm(ABORT_TEXT)))
        elif kind == "patt_own":
            list(self.own.occurrences_in(Perm(ABORT_TEXT)))
        elif kind == "text_shared":
            list(Perm((1, 0)).occurrences_in(self.shared))
        elif kind == "inv":
            self.shared.inverse()
        elif kind == "unrank":
            Perm.unrank(op[1])
        elif kind == "unrank_n":
            Perm.unrank(op[1], op[2])
        elif kind == "rank":
            Perm(self.rh.RANK[op[1]]).rank()
        elif kind in ("first", "up_to_length", "of_length"):
            for _ in getattr(Perm, kind)(op[1]):
                pass
        elif kind == "two_firsts":
            a, b = Perm.first(op[1]), Perm.first(op[2])
            for _ in itertools.zip_longest(a, b):
                pass
        elif kind == "mesh_unrank":
            perm, r = self.rh.MESH[op[1]]
            MeshPatt.unrank(Perm(perm), r)
        elif kind == "mesh_rank":
            perm, r = self.rh.MESH[op[1]]
            MeshPatt(Perm(perm), sorted(RC.shading_of_number(len(perm), r))).rank()
        elif kind == "mesh_of_length":
            for _ in MeshPatt.of_length(op[1]):
                pass
        elif kind == "from_integer":
            Perm.from_integer(op[1])
        elif kind == "validated":
            Perm.from_iterable_validated((1, 0, 2))
        elif kind == "from_string":
            Perm.from_string("1302")
        elif kind == "one_based":
            Perm.one_based((2, 4, 1, 3))
        elif kind == "str_repr":
            p = Perm.to_standard(make_key(ABORT_KEYS[op[1]]))
            str(p), repr(p)
        else:
            raise ValueError(kind)

    def battery(self, after):
        """None, or the first disagreement with the reference.  `after` = this rig (its shared /
        own objects are queried again) or None."""
        Perm, MeshPatt, rh = self.Perm, self.MeshPatt, self.rh
        text = ABORT_TEXT

        def bad(what, exp, got):
            return {"observer": what, "expected": exp, "got": got}
        if after is not None:
            kind = self.op[0]
            if kind != "std" or True:
                self.run()                                   # the very same operation again
            for obj in (self.shared, self.own):
                if obj is not None:
                    ref = tuple(int(v) for v in obj)
                    got = list(obj.occurrences_in(Perm(text)))
                    if got != R.occurrences(ref, text):
                        return bad("search with the object the operation worked on",
                                   R.occurrences(ref, text), got)
                    if not is_perm_obj(Perm, obj.inverse(), R.inverse(ref)):
                        return bad("inverse of that object", R.inverse(ref), describe(obj.inverse()))
        for spec in ABORT_KEYS:
            ref = R.std(tuple(make_key(spec)))
            got = Perm.to_standard(make_key(spec))
            if not is_perm_obj(Perm, got, ref):
                return bad("to_standard(%r)" % (spec,), ref, describe(got))
            occ = list(got.occurrences_in(Perm(text)))
            if occ != R.occurrences(ref, text):
                return bad("search with to_standard(%r)" % (spec,), R.occurrences(ref, text), occ)
            fresh = list(Perm(ref).occurrences_in(Perm(text)))
            if fresh != R.occurrences(ref, text):
                return bad("search with fresh Perm(%r)" % (ref,), R.occurrences(ref, text), fresh)
        for r in rh.UNRANK:
            got = Perm.unrank(r)
            if not is_perm_obj(Perm, got, rh.ref[r]):
                return bad("unrank(%d)" % r, rh.ref[r], describe(got))
            if Perm(rh.ref[r]).rank() != r:
                return bad("rank(%r)" % (rh.ref[r],), r, Perm(rh.ref[r]).rank())
        for r, n in rh.UNRANK_N:
            exp = rh.ref[RC.offset(n) + r]
            got = Perm.unrank(r, n)
            if not is_perm_obj(Perm, got, exp):
                return bad("unrank(%d, %d)" % (r, n), exp, describe(got))
        for name, arg, exp in (("first", 12, rh.ref[:12]), ("first", 34, rh.ref[:34]),
                               ("of_length", 3, list(RC.lex_perms(3))),
                               ("up_to_length", 3, RC.graded(3))):
            got = [tuple(x) for x in getattr(Perm, name)(arg)]
            if got != exp:
                return bad("%s(%d)" % (name, arg), exp, got)
        for perm, r in rh.MESH:
            bij, lay = mesh_case(Perm, MeshPatt, perm, r)
            if bij or lay:
                return bad("MeshPatt.unrank/rank(%r, %d)" % (perm, r), None, [bij, lay])
        tmp = Partial()
        check_mesh_of_length(tmp, 1, None)
        if tmp.viols:
            return bad("MeshPatt.of_length(1)", None, tmp.viols[0]["detail"])
        if tuple(Perm.from_integer(213)) != (1, 0, 2) or \
                tuple(Perm.from_iterable_validated((1, 0, 2))) != (1, 0, 2):
            return bad("from_integer / from_iterable_validated", None, None)
        return None


def abort_case(state, op, k, root):
    """Returns (detail or None, finished?, total events)."""
    import signal
    rig = AbortRig(state, op)
    finished, total = _run_with_abort(rig.run, k, root)
    if k is None:
        return None, finished, total

    def on_alarm(signum, frame):
        raise TimeoutError("read-back did not finish within 20 s")
    old = signal.signal(signal.SIGALRM, on_alarm)
    signal.alarm(20)
    try:
        d = rig.battery(rig)
    except TimeoutError as exc:
        d = {"hang": str(exc)}
    except Exception as exc:  # noqa
        d = {"exception_in_read_back": repr(exc)}
    finally:
        signal.alarm(0)
        signal.signal(signal.SIGALRM, old)
    return d, finished, total


def shard_abort(shard):
    state, op = shard
    part = Part()
    root = os.path.join(os.path.abspath(REPO), "permuta") + os.sep
    old_hook = sys.unraisablehook
    sys.unraisablehook = lambda unraisable: None
    try:
        _, _, total = abort_case(state, op, None, root)
        for k in range(1, total + 1):
            d, finished, _ = abort_case(state, op, k, root)
            if d is not None:
                part.violation("abort", {"state": state, "op": list(op), "abort_at_call": k}, d)
            part.add(1, 0 if finished else 1)
    finally:
        sys.settrace(None)
        sys.unraisablehook = old_hook
        reset_hidden()
    part.bump("abort_points", total)
    return part, total


# --------------------------------------------------------------------------------------------
# E2 : histories
# --------------------------------------------------------------------------------------------

def freeze(x):
    import collections
    if isinstance(x, dict):
        return tuple(sorted(((repr(k), freeze(v)) for k, v in x.items())))
    if isinstance(x, (list, tuple)):
        return tuple(freeze(v) for v in x)
    if isinstance(x, (set, frozenset)):
        return tuple(sorted(repr(freeze(v)) for v in x))
    if isinstance(x, bool) or x is None:
        return ("b", x)
    if isinstance(x, int):
        return x
    if isinstance(x, float):
        return ("f", x)
    if isinstance(x, str):
        return x
    if isinstance(x, collections.deque):
        return ("deque",) + tuple(freeze(v) for v in x)
    return repr(type(x))


MODULES = ("permuta.patterns.perm", "permuta.patterns.meshpatt", "permuta.patterns.patt")


def hidden_state():
    """Everything outside the lru_cache in which state could be kept between calls: mutable
    containers at module level / class level of the pattern modules, and the default arguments,
    function attributes and closure cells of every function of the classes defined there."""
    import collections
    import types
    out = []
    cont = (list, dict, set, collections.deque)
    for name in MODULES:
        mod = sys.modules.get(name)
        if mod is None:
            continue
        for k, v in vars(mod).items():
            if isinstance(v, cont):
                if not k.startswith("__"):
                    out.append((name, k, freeze(v)))
            elif isinstance(v, type) and v.__module__ == name:
                cname = v.__name__
                for ck, cv in vars(v).items():
                    t = type(cv)
                    if t is types.FunctionType:
                        f = cv
                    elif t is classmethod or t is staticmethod:
                        f = cv.__func__
                        if type(f) is not types.FunctionType:
                            f = getattr(f, "__wrapped__", f)
                            if type(f) is not types.FunctionType:
                                continue
                    elif isinstance(cv, cont):
                        if not ck.startswith("__"):
                            out.append((name, cname + "." + ck, freeze(cv)))
                        continue
                    else:
                        continue
                    d, kd, cl, fd = f.__defaults__, f.__kwdefaults__, f.__closure__, f.__dict__
                    if d is None and kd is None and cl is None and not fd:
                        continue
                    item = []
                    if d and any(isinstance(x, cont) for x in d):
                        item.append(("defaults", freeze(list(d))))
                    if kd and any(isinstance(x, cont) for x in kd.values()):
                        item.append(("kwdefaults", freeze(kd)))
                    if fd:
                        item.append(("attrs", freeze({a: b for a, b in fd.items()
                                                      if a != "__wrapped__"})))
                    if cl:
                        cells = []
                        for c in cl:
                            try:
                                cells.append(freeze(c.cell_contents))
                            except ValueError:
                                cells.append("empty")
                        item.append(("closure", tuple(cells)))
                    if item:
                        out.append((name, cname + "." + ck, tuple(item)))
    out.sort()
    return tuple(out)


def hidden_containers():
    """The mutable containers hidden_state() looks at, as objects."""
    import collections
    import types
    cont = (list, dict, set, collections.deque)
    for name in MODULES:
        mod = sys.modules.get(name)
        if mod is None:
            continue
        for k, v in list(vars(mod).items()):
            if isinstance(v, cont):
                if not k.startswith("__"):
                    yield v
            elif isinstance(v, type) and v.__module__ == name:
                for ck, cv in list(vars(v).items()):
                    t = type(cv)
                    f = None
                    if t is types.FunctionType:
                        f = cv
                    elif t is classmethod or t is staticmethod:
                        f = cv.__func__
                        if type(f) is not types.FunctionType:
                            f = getattr(f, "__wrapped__", None)
                    elif isinstance(cv, cont):
                        if not ck.startswith("__"):
                            yield cv
                        continue
                    if type(f) is types.FunctionType:
                        for x in (f.__defaults__ or ()):
                            if isinstance(x, cont):
                                yield x
                        for x in (f.__kwdefaults__ or {}).values():
                            if isinstance(x, cont):
                                yield x


_PRISTINE = None


def snapshot_pristine():
    """Called once per interpreter BEFORE the first library call (forked workers inherit it):
    remembers the import-time content of every hidden container, so that a replay can start
    from the import-time state even when the state is kept somewhere I cannot name."""
    global _PRISTINE
    if _PRISTINE is None:
        import copy
        _P()
        _M()
        _PRISTINE = [(obj, copy.deepcopy(obj)) for obj in hidden_containers()]


def reset_hidden():
    import collections
    for obj, snap in (_PRISTINE or ()):
        if isinstance(obj, (list, collections.deque)):
            obj.clear()
            obj.extend(snap)
        else:
            obj.clear()
            obj.update(snap)
    cache = std_cache()
    if cache is not None:
        cache.cache_clear()


def std_cache():
    Perm = _P()
    f = getattr(Perm, "_to_standard", None)
    return f if f is not None and hasattr(f, "cache_info") else None


def K(vals, cont="tuple"):
    return (vals, cont)


# Families of keys.  Inside a family several keys are EQUAL as tuples (same memo entry) but of
# different types, others differ but standardise to the same permutation, others differ.
FAMILIES = {
    "len3": {
        "keys": [K((1, 0, 2)), K((1.0, 0.0, 2.0), "list"), K((True, False, 2)), K("bac", "str"),
                 K((5, 3, 9), "gen"), K((1, 0, 1)), K((2, 1, 3))],
        "texts": [(1, 0, 2, 3), (2, 1, 0, 3, 4)],
        "patts": [(1, 0), (0, 1)],
        "ints": [213, 102, 314],
    },
    "ties": {
        "keys": [K((0, 0, 0)), K((0.0, 0, False)), K("aaa", "str"), K((7, 7, 7), "list"),
                 K((0, 1, 2)), K((0.0, 1.0, 2.0)), K((1, 1, 0)), K((1.0, True, 0), "gen")],
        "texts": [(0, 1, 2, 3), (1, 0, 3, 2)],
        "patts": [(0, 1), (1, 0)],
        "ints": [123, 12, 1],
    },
    "small": {
        "keys": [K(()), K((), "gen"), K("", "str"), K((0,)), K((0.0,)), K((False,)), K("a", "str"),
                 K((1, 0)), K((True, False)), K((1.0, 0.0), "list"), K((0, 0))],
        "texts": [(0,), (1, 0, 2)],
        "patts": [(), (0,)],
        "ints": [0, 1, 21, 10],
    },
    "len4": {
        "keys": [K((1, 3, 0, 2)), K((1.0, 3.0, 0.0, 2.0)), K((2, 4, 1, 3), "gen"),
                 K((1, 3, 0, 1)), K((True, 3, False, 2)), K("bdac", "str"), K((2.0, 4, True, 3))],
        "texts": [(1, 3, 0, 2, 4), (2, 4, 0, 3, 1, 5)],
        "patts": [(1, 0, 2), (0, 1)],
        "ints": [2413, 1302, 2401],
    },
}
INITS = ("fresh", "warm", "full")


def make_key(spec):
    vals, cont = spec
    if cont == "tuple":
        return tuple(vals)
    if cont == "list":
        return list(vals)
    if cont == "gen":
        return (v for v in tuple(vals))
    if cont == "str":
        return vals
    raise ValueError(cont)


def digits_of(i):
    return tuple(int(c) for c in str(i))


class StdHistory:
    """Operations (all JSON-able tuples):
      ("init", name)        only as first element of a history: the starting state
      ("std", k)            Perm.to_standard(key k)
      ("alias", k)          Perm.standardize(key k) / Perm.from_iterable(key k)
      ("patt", k, t)        obj = to_standard(key k); list(obj.occurrences_in(text t))  (fills the
                            memo on the SHARED object)
      ("text", k, p)        obj = to_standard(key k); list(patt p .occurrences_in(obj))
      ("inv", k)            obj = to_standard(key k); obj.inverse() (needs genuine int entries)
      ("fromint", i)        Perm.from_integer(int i) (goes through the same memo)
    After every operation: result against the reference; every object handed out so far in this
    history is still the permutation it was, made of ints, with a memo slot that is either empty
    or what a fresh equal Perm computes.
    Canonical state: cache_info(), my own model of the recency order of the family's key
    classes, for every key class the object last handed out (entries, entry types, vars()), and
    hidden_state()."""

    def __init__(self, famname, init):
        fam = FAMILIES[famname]
        self.famname, self.init = famname, init
        self.keys = fam["keys"]
        self.texts, self.patts, self.ints = fam["texts"], fam["patts"], fam["ints"]
        self.mat = [tuple(make_key(k)) for k in self.keys] + [digits_of(i) for i in self.ints]
        self.refs = [R.std(m) for m in self.mat]
        # key class = first key (in this list) that is equal as a tuple (same memo entry)
        self.cls = []
        for i, m in enumerate(self.mat):
            self.cls.append(next(j for j in range(i + 1)
                                 if self.mat[j] == m and hash(self.mat[j]) == hash(m)))
        nk = len(self.keys)
        self.menu = ([("std", k) for k in range(nk)]
                     + [("alias", k) for k in range(nk)]
                     + [("patt", k, t) for k in range(nk) for t in range(len(self.texts))]
                     + [("text", k, p) for k in range(nk) for p in range(len(self.patts))]
                     + [("inv", k) for k in range(nk)]
                     + [("fromint", i) for i in range(len(self.ints))])
        if init == "full":
            # 10 000 filler calls per replay: the menu is cut down to the operations that fetch
            # (and so possibly evict and rebuild) an entry and to one search on the fetched object
            self.menu = [op for op in self.menu
                         if op[0] in ("std", "fromint") or (op[0] == "patt" and op[2] == 0)]

    def enabled(self, canon, hist):
        return self.menu

    def prepare(self, Perm):
        reset_hidden()
        cache = std_cache()
        if self.init == "fresh":
            return
        if self.init == "warm":
            # the family's own keys and a sweep of small sequences, each used once as a pattern
            T = Perm((0, 2, 1, 3))
            for L in range(0, 4):
                for seq in itertools.product(range(3), repeat=L):
                    obj = Perm.to_standard(seq)
                    list(obj.occurrences_in(T))
            for spec in self.keys:
                obj = Perm.to_standard(make_key(spec))
                list(obj.occurrences_in(Perm(self.texts[0])))
            return
        if self.init == "full":
            # the family's keys are the OLDEST entries of a full memo: every new key evicts one
            size = cache.cache_info().maxsize if cache is not None else None
            for spec in self.keys:
                obj = Perm.to_standard(make_key(spec))
                list(obj.occurrences_in(Perm(self.texts[0])))
            if size is not None:
                have = cache.cache_info().currsize
                for i in range(size - have):
                    Perm.to_standard((1000 + i,))
            return
        raise ValueError(self.init)

    def build(self, hist):
        Perm = _P()
        assert hist and hist[0][0] == "init" and hist[0][1] == self.init
        try:
            self.prepare(Perm)
        except Exception as exc:  # noqa
            # the starting state itself cannot be built: reported once, at the initial history
            v = {"op": hist[0], "exception_while_preparing": repr(exc)}
            return ("prepare-failed", self.init), ([v] if len(hist) == 1 else [])
        handed = []        # (object, reference tuple)
        last_obj = {}      # key class -> object last handed out
        recency = []       # model: key classes, least recently used first
        viols = []
        obs = self.last_obs = []     # what every operation returned (for the fresh-interpreter
        ops = hist[1:]               # cross-check)
        lastidx = len(ops) - 1
        for hi, op in enumerate(ops):
            v = None
            try:
                kind = op[0]
                if kind == "fromint":
                    ki = len(self.keys) + op[1]
                    obj = Perm.from_integer(self.ints[op[1]])
                else:
                    ki = op[1]
                    arg = make_key(self.keys[ki])
                    if kind == "alias":
                        obj = (Perm.standardize if ki % 2 == 0 else Perm.from_iterable)(arg)
                    else:
                        obj = Perm.to_standard(arg)
                ref = self.refs[ki]
                if not is_perm_obj(Perm, obj, ref):
                    v = {"op": op, "expected": ref, "got": describe(obj)}
                handed.append((obj, ref))
                obs.append([list(op), describe(obj)])
                if not (kind == "fromint" and self.ints[op[1]] == 0):
                    c = self.cls[ki]
                    last_obj[c] = obj
                    if c in recency:
                        recency.remove(c)
                    recency.append(c)
                if v is None and kind == "patt":
                    t = self.texts[op[2]]
                    got = list(obj.occurrences_in(Perm(t)))
                    obs[-1].append(got)
                    exp = R.occurrences(ref, t)
                    if got != exp:
                        v = {"op": op, "expected": exp, "got": got}
                elif v is None and kind == "text":
                    p = self.patts[op[2]]
                    got = list(Perm(p).occurrences_in(obj))
                    obs[-1].append(got)
                    exp = R.occurrences(p, ref)
                    if got != exp:
                        v = {"op": op, "expected": exp, "got": got}
                elif v is None and kind == "inv":
                    got = obj.inverse()
                    obs[-1].append(describe(got))
                    if not is_perm_obj(Perm, got, R.inverse(ref)):
                        v = {"op": op, "expected": R.inverse(ref), "got": describe(got)}
            except Exception as exc:  # noqa
                v = {"op": op, "exception": repr(exc)}
                obs.append([list(op), "raised " + repr(exc)])
            if v is None:
                # integrity of everything handed out so far (shared objects)
                for (o, ref) in handed:
                    if not is_perm_obj(Perm, o, ref):
                        v = {"op": op, "shared_object_changed": describe(o), "expected": ref}
                        break
                    memo = getattr(o, "_cached_pattern_details", None)
                    if memo is not None and hasattr(Perm, "_pattern_details"):
                        try:
                            fresh_memo = Perm(ref)._pattern_details()
                        except Exception:  # noqa
                            continue
                        if memo != fresh_memo:
                            v = {"op": op, "shared_object_memo": repr(memo),
                                 "fresh_memo": repr(fresh_memo), "perm": ref}
                            break
            if v is not None and hi == lastidx:
                viols.append(v)
        cache = std_cache()
        ci = tuple(cache.cache_info()) if cache is not None else None
        objs = tuple((c, tuple(o), tuple(type(x).__name__ for x in o),
                      freeze(vars(o)) if hasattr(o, "__dict__") else None)
                     for c, o in sorted(last_obj.items()))
        canon = (self.init, ci, tuple(recency), objs, hidden_state())
        return canon, viols


GEN_KINDS = (("of_length", 3), ("up_to_length", 2), ("first", 6))
MAXG = 2


class RankHistory:
    """Interleavings of generator steps with unrank / rank / first / mesh calls.  There is no
    visible state to merge on, so the canonical state is the history itself plus hidden_state()
    at its end: every sequence of operations up to the depth is executed.
      ("gstart", g) create generator GEN_KINDS[g] (at most MAXG alive); ("gstep", j) next() on
      the j-th; the others are complete calls compared with the reference."""
    UNRANK = (0, 1, 2, 3, 4, 9, 10, 33, 34, 153)
    UNRANK_N = ((0, 0), (0, 3), (5, 3), (1, 2), (23, 4), (119, 5))
    RANK = ((), (0,), (1, 0), (2, 1, 0), (0, 2, 1, 3), (4, 3, 2, 1, 0))
    FIRST = (0, 1, 5)
    MESH = (((), 1), ((0,), 9), ((1, 0), 386), ((0, 1), 511))

    def __init__(self):
        self.ref = RC.graded(5)
        self.menu = ([("gstart", g) for g in range(len(GEN_KINDS))]
                     + [("gstep", j) for j in range(MAXG)]
                     + [("unrank", r) for r in self.UNRANK]
                     + [("unrank_n", r, n) for r, n in self.UNRANK_N]
                     + [("rank", i) for i in range(len(self.RANK))]
                     + [("first", k) for k in self.FIRST]
                     + [("mesh", i) for i in range(len(self.MESH))]
                     + [("mesh_of_length", 1)])

    def gen_ref(self, g):
        kind, arg = GEN_KINDS[g]
        if kind == "of_length":
            return list(RC.lex_perms(arg))
        if kind == "up_to_length":
            return RC.graded(arg)
        return self.ref[:arg]

    def enabled(self, canon, hist):
        gens = canon[0]
        for op in self.menu:
            if op[0] == "gstart" and len(gens) >= MAXG:
                continue
            if op[0] == "gstep" and (op[1] >= len(gens) or gens[op[1]][2]):
                continue
            yield op

    def build(self, hist):
        Perm, MeshPatt = _P(), _M()
        reset_hidden()
        gens = []   # [generator, kind index, consumed, exhausted]
        viols = []
        last = len(hist) - 1
        for hi, op in enumerate(hist):
            v = None
            try:
                kind = op[0]
                if kind == "gstart":
                    k, arg = GEN_KINDS[op[1]]
                    gens.append([getattr(Perm, k)(arg), op[1], 0, False])
                elif kind == "gstep":
                    g = gens[op[1]]
                    ref = self.gen_ref(g[1])
                    try:
                        got = next(g[0])
                        if g[2] >= len(ref) or not is_perm_obj(Perm, got, ref[g[2]]):
                            v = {"op": op, "got": describe(got),
                                 "expected": ref[g[2]] if g[2] < len(ref) else "StopIteration"}
                        g[2] += 1
                    except StopIteration:
                        if g[2] != len(ref):
                            v = {"op": op, "expected": ref[g[2]], "got": "StopIteration"}
                        g[3] = True
                elif kind == "unrank":
                    got = Perm.unrank(op[1])
                    if not is_perm_obj(Perm, got, self.ref[op[1]]):
                        v = {"op": op, "expected": self.ref[op[1]], "got": describe(got)}
                elif kind == "unrank_n":
                    exp = self.ref[RC.offset(op[2]) + op[1]]
                    got = Perm.unrank(op[1], op[2])
                    if not is_perm_obj(Perm, got, exp):
                        v = {"op": op, "expected": exp, "got": describe(got)}
                elif kind == "rank":
                    p = self.RANK[op[1]]
                    got = Perm(p).rank()
                    if got != self.ref.index(p):
                        v = {"op": op, "expected": self.ref.index(p), "got": got}
                elif kind == "first":
                    got = list(Perm.first(op[1]))
                    if [tuple(x) for x in got] != self.ref[:op[1]]:
                        v = {"op": op, "expected": self.ref[:op[1]], "got": [list(x) for x in got]}
                elif kind == "mesh":
                    perm, r = self.MESH[op[1]]
                    bij, lay = mesh_case(Perm, MeshPatt, perm, r)
                    if bij or lay:
                        v = {"op": op, "mesh_bij": bij, "mesh_layout": lay}
                elif kind == "mesh_of_length":
                    tmp = Partial()
                    check_mesh_of_length(tmp, op[1], None)
                    if tmp.viols:
                        v = {"op": op, "detail": tmp.viols[0]["detail"]}
            except Exception as exc:  # noqa
                v = {"op": op, "exception": repr(exc)}
            if v is not None and hi == last:
                viols.append(v)
        canon = (tuple((g[1], g[2], g[3]) for g in gens), tuple(hist), hidden_state())
        return canon, viols


class GenHistory:
    """Several generators of the SAME entry points alive at once (first(k) with different k,
    up_to_length, of_length; at most GMAX alive, the same kind may be started twice), stepped in
    every interleaving up to the depth.  After EVERY history an epilogue is run, three times,
    each time from a clean replay of the history (variants: read-back first + drain in creation
    order; no first read-back + creation order; no first read-back + reverse order):
      1. (variant 0 only) read-back  list(first(K)), list(of_length(3)), list(up_to_length(3)),
         K = 12 beyond everything any generator of the menu touches;
      2. every live generator is drained and must deliver exactly the rest of its reference
         sequence;
      3. read-back again with K2 = 34 (all of S<=4), i.e. further than anything read before, so
         that damage appended behind an earlier read-back is seen as well.
    So a prefix/cache that two live generators both extend shows up in a later complete call even
    though each generator's own output was right.  No merging: state = history."""
    KINDS = (("first", 2), ("first", 4), ("first", 7), ("up_to_length", 2), ("of_length", 3))
    GMAX = 3
    K = 12
    K2 = 34
    VARIANTS = ((True, False), (False, False), (False, True))   # (read-back first, reverse drain)

    def __init__(self):
        self.ref = RC.graded(4)
        self.menu = ([("gstart", g) for g in range(len(self.KINDS))]
                     + [("gstep", j) for j in range(self.GMAX)])
        self.refs = []
        for kind, arg in self.KINDS:
            if kind == "of_length":
                self.refs.append(list(RC.lex_perms(arg)))
            elif kind == "up_to_length":
                self.refs.append(RC.graded(arg))
            else:
                self.refs.append(self.ref[:arg])
        self.readback = (("first", self.K, self.ref[:self.K]),
                         ("of_length", 3, list(RC.lex_perms(3))),
                         ("up_to_length", 3, RC.graded(3)))
        self.readback2 = (("first", self.K2, self.ref[:self.K2]),
                          ("of_length", 3, list(RC.lex_perms(3))),
                          ("up_to_length", 3, RC.graded(3)))

    def enabled(self, canon, hist):
        gens = canon[0]
        for op in self.menu:
            if op[0] == "gstart" and len(gens) >= self.GMAX:
                continue
            if op[0] == "gstep" and (op[1] >= len(gens) or gens[op[1]][2]):
                continue
            yield op

    def _readback(self, Perm, stage, calls):
        for name, arg, ref in calls:
            try:
                got = list(getattr(Perm, name)(arg))
            except Exception as exc:  # noqa
                return {"epilogue": stage, "call": [name, arg], "exception": repr(exc)}
            if len(got) != len(ref) or any(not is_perm_obj(Perm, g, r) for g, r in zip(got, ref)):
                i = first_diff(got, ref)
                return {"epilogue": stage, "call": [name, arg], "index": i, "len_got": len(got),
                        "expected": ref[i] if i < len(ref) else None,
                        "got": describe(got[i]) if i < len(got) else None}
        return None

    def _run(self, hist, variant):
        Perm = _P()
        reset_hidden()
        gens = []   # [generator, kind index, consumed, exhausted]
        v = None
        for op in hist:
            v = None
            try:
                if op[0] == "gstart":
                    kind, arg = self.KINDS[op[1]]
                    gens.append([getattr(Perm, kind)(arg), op[1], 0, False])
                else:
                    g = gens[op[1]]
                    ref = self.refs[g[1]]
                    try:
                        got = next(g[0])
                        if g[2] >= len(ref) or not is_perm_obj(Perm, got, ref[g[2]]):
                            v = {"op": op, "got": describe(got),
                                 "expected": ref[g[2]] if g[2] < len(ref) else "StopIteration"}
                        g[2] += 1
                    except StopIteration:
                        if g[2] != len(ref):
                            v = {"op": op, "expected": ref[g[2]], "got": "StopIteration"}
                        g[3] = True
            except Exception as exc:  # noqa
                v = {"op": op, "exception": repr(exc)}
        positions = tuple((g[1], g[2], g[3]) for g in gens)
        pre, reverse = self.VARIANTS[variant]
        if v is None and pre:
            v = self._readback(Perm, "read-back before draining", self.readback)
        if v is None:
            order = list(range(len(gens)))
            if reverse:
                order.reverse()
            for j in order:
                g = gens[j]
                if g[3]:
                    continue
                ref = self.refs[g[1]]
                try:
                    rest = list(g[0])
                except Exception as exc:  # noqa
                    v = {"epilogue": "drain generator %d" % j, "exception": repr(exc)}
                    break
                exp = ref[g[2]:]
                if len(rest) != len(exp) or any(not is_perm_obj(Perm, a, b)
                                                for a, b in zip(rest, exp)):
                    v = {"epilogue": "drain generator %d" % j, "expected": exp,
                         "got": [list(x) for x in rest]}
                    break
        if v is None:
            v = self._readback(Perm, "read-back after draining", self.readback2)
        if v is not None and "epilogue" in v:
            v["epilogue_variant"] = {"read_back_first": pre,
                                     "drain_order": "reverse" if reverse else "creation"}
        return positions, v

    def build(self, hist):
        viols = []
        positions = ()
        for variant in range(len(self.VARIANTS)):
            positions, v = self._run(hist, variant)
            if v is not None:
                viols.append(v)
                break
        reset_hidden()
        return (positions, tuple(hist)), viols


def gen_initials(model, nops):
    """All enabled histories with exactly nops operations (no library call: positions are
    tracked symbolically)."""
    out = [()]
    for _ in range(nops):
        nxt = []
        for h in out:
            ngen = sum(1 for op in h if op[0] == "gstart")
            for op in model.menu:
                if op[0] == "gstart" and ngen >= model.GMAX:
                    continue
                if op[0] == "gstep" and op[1] >= ngen:
                    continue
                nxt.append(h + (op,))
        out = nxt
    return out


def shard_history_gen(shard):
    prefix, depth = shard
    part = Part()
    model = GenHistory()

    def on_violation(hist, v):
        part.violation("history_gen", {"model": "gen", "history": list(hist)}, v)
    st = bfs([tuple(prefix)], model.menu, model.build, depth - len(prefix), on_violation,
             enabled=model.enabled)
    part.add(st.transitions + 1, st.transitions + 1)
    part.bump("history_states", st.states)
    part.bump("history_transitions", st.transitions)
    if len(prefix) == 2 and prefix[0] == ("gstart", 1) and prefix[1] == ("gstart", 2):
        part.sample({"sub": "history_gen", "kinds": [list(k) for k in model.KINDS],
                     "history": st.sample_histories[-1] if st.sample_histories else []}, cap=1)
    return part, (st.states, st.transitions + 1, st.depth_completed, [])


def shard_history(shard):
    kind = shard[0]
    part = Part()
    if kind == "std":
        _, famname, init, depth = shard
        if init == "full":
            cache = std_cache()
            size = cache.cache_info().maxsize if cache is not None else None
            if size is None or size > 100000:
                part.bump("history_full_init_skipped")
                return part, (0, 0, 0, [])
        model = StdHistory(famname, init)
        initials = [(("init", init),)]

        def on_violation(hist, v):
            part.violation("history_std", {"model": "std", "family": famname, "init": init,
                                       "history": list(hist)}, v)
        st = bfs(initials, model.menu, model.build, depth, on_violation, enabled=model.enabled)
        samples = [(famname, init, h) for h in st.sample_histories[:2]]
        part.sample({"sub": "history", "family": famname, "init": init,
                     "keys": [repr(k) for k in model.keys],
                     "history": st.sample_histories[-1] if st.sample_histories else []}, cap=1)
    else:
        _, firstop, depth = shard
        model = RankHistory()
        initials = [(firstop,)]

        def on_violation(hist, v):
            part.violation("history_rank", {"model": "rank", "history": list(hist)}, v)
        st = bfs(initials, model.menu, model.build, depth - 1, on_violation,
                 enabled=model.enabled)
        samples = []
        if firstop == ("gstart", 0):
            part.sample({"sub": "history", "model": "rank",
                         "history": st.sample_histories[-1] if st.sample_histories else []},
                        cap=1)
    part.add(st.transitions + len(initials), 0)
    part.bump("history_states", st.states)
    part.bump("history_transitions", st.transitions)
    return part, (st.states, st.transitions, st.depth_completed, samples)


# ---- fresh-interpreter cross-check ---------------------------------------------------------

FRESH_CODE = r"""
import sys, json
repo, verif, spec = sys.argv[1], sys.argv[2], json.loads(sys.argv[3])
sys.path.insert(0, verif)
sys.path.insert(0, repo)
from mc.checks import c09
print("CANON " + c09.fresh_entry(spec))
"""


def to_hist(h):
    return tuple(tuple(op) for op in h)


def fresh_entry(spec):
    snapshot_pristine()
    for other in spec.get("dirty_with", ()):       # in-process only: use the process first
        StdHistory(other[0], other[1]).build(to_hist(other[2]))
    model = StdHistory(spec["family"], spec["init"])
    canon, viols = model.build(to_hist(spec["history"]))
    return json.dumps({"observations": jsonable(getattr(model, "last_obs", None)),
                       "viols": len(viols), "canon": repr(canon)}, sort_keys=True)


def shard_fresh(shard):
    """Same history in this (long-lived, reset by name) process and in a fresh interpreter:
    the OBSERVATIONS (what every operation returned) must be identical - that is demanded of
    the library.  A different canonical state only says that the reset is not complete (state I
    cannot reset by name): reported as a cap, not as a violation."""
    famname, init, hist = shard[:3]
    others = shard[3] if len(shard) > 3 else ()
    part = Part()
    spec = {"family": famname, "init": init, "history": [list(op) for op in hist]}
    here = json.loads(fresh_entry(dict(spec, dirty_with=[o for o in others if o[1] != "full"])))
    env = dict(os.environ)
    env["PYTHONHASHSEED"] = "0"
    env["PYTHONDONTWRITEBYTECODE"] = "1"
    proc = subprocess.run([sys.executable, "-B", "-c", FRESH_CODE, REPO, VERIF, json.dumps(spec)],
                          capture_output=True, text=True, env=env, cwd=VERIF, timeout=600)
    lines = [ln for ln in proc.stdout.splitlines() if ln.startswith("CANON ")]
    if proc.returncode != 0 or not lines:
        raise RuntimeError("fresh interpreter failed: %s" % proc.stderr[-2000:])
    there = json.loads(lines[-1][len("CANON "):])
    if (here["observations"], here["viols"]) != (there["observations"], there["viols"]):
        part.violation("fresh", {"model": "std", "family": famname, "init": init,
                                 "history": spec["history"]},
                       {"in_process": here["observations"], "in_process_violations": here["viols"],
                        "fresh_interpreter": there["observations"],
                        "fresh_interpreter_violations": there["viols"]})
    part.add(1, 1)
    return part, (here["canon"] == there["canon"])


# --------------------------------------------------------------------------------------------

def chunks(total, per):
    return [(lo, min(total, lo + per)) for lo in range(0, total, per)]


def run(ctx, only=None):
    def want(name):
        return only is None or name in only

    quick = ctx.quick
    ctx.rule = ("one evaluation = one (sub-check, input) pair, each enumerated once; non-trivial = "
                "permutation of length >= 2 (gen, rank, notation), k >= 3 (first), rank outside the "
                "domain (reject), pair of different lengths on which plain tuple order and "
                "(length, lex) order disagree (order), sequence with a repeated value (std), "
                "rejected tuple or accepted one of length >= 2 (validated), non-empty shading (mesh)")
    ctx.assumptions = [
        "reference order built from the definition of (length, lexicographic) order "
        "(mc/ref_c09.py), standardisation by counting smaller-or-earlier entries (refmodel.std)",
        "MeshPatt bit layout taken from the doctests of MeshPatt.unrank/rank (cell (x,y) = bit "
        "x*(k+1)+y); reported separately as mesh_layout",
        "a rank outside the domain must not be answered with a permutation (any exception is "
        "accepted)",
        "from_integer is only held to 1-based input of length <= 9 and 0-based input without a "
        "leading zero; str() only up to length 10",
        "hidden state is searched for in module/class level containers, default arguments, "
        "function attributes and closure cells of permuta.patterns.{perm,meshpatt,patt}",
    ]
    snapshot_pristine()
    N = 8 if quick else 9
    RC.selftest(N)                      # also builds the reference table before forking
    ref = RC.graded(N)

    if want("gen"):
        e0 = ctx.evals
        ctx.pmap(shard_gen, [(kind, n) for n in range(0, N + 1)
                             for kind in ("of_length", "up_to_length")])
        ctx.bounds["gen"] = "of_length(n), up_to_length(n) for n = 0..%d, whole sequences" % N
        ctx.section("gen", evaluations=ctx.evals - e0)
    if want("first"):
        e0 = ctx.evals
        K6, K7, K8 = RC.offset(7) + 1, RC.offset(8) + 1, RC.offset(9) + 1
        marks = {RC.offset(m) + d for m in range(10) for d in (-2, -1, 0, 1, 2)}
        if quick:
            ks = list(range(0, K6 + 1))
            ks += [k for k in range(K6 + 1, K7 + 1) if k % 8 == 0 or k in marks]
            bound = ("every k = 0..%d (= |S<=6| + 1); every k = %d..%d (= |S<=7| + 1) that is a "
                     "multiple of 8 or within 2 of a length boundary" % (K6, K6 + 1, K7))
        else:
            ks = list(range(0, K7 + 1))
            ks += [k for k in range(K7 + 1, K8 + 1) if k % 8 == 0 or k in marks]
            bound = ("every k = 0..%d (= |S<=7| + 1); every k = %d..%d (= |S<=8| + 1) that is a "
                     "multiple of 8 or within 2 of a length boundary" % (K7, K7 + 1, K8))
        nsh = 64 if quick else 192
        shards = [(ks[i::nsh], 8 if quick else 9) for i in range(nsh)]
        ctx.pmap(shard_first, [s for s in shards if s[0]])
        ctx.bounds["first"] = bound
        ctx.section("first", evaluations=ctx.evals - e0)
    if want("rank"):
        e0 = ctx.evals
        ctx.pmap(shard_rank, [(N, lo, hi) for lo, hi in chunks(len(ref), 4096)])
        top = 12 if quick else 14
        ctx.pmap(shard_rank_boundary, [(n, 24) for n in range(N + 1, top + 1)])
        ctx.pmap(shard_rank_reject, [(5 if quick else 6,)])
        ctx.bounds["rank"] = ("every rank 0..%d (all permutations of length <= %d): unrank(r), "
                              "rank(), unrank(r - offset, n); first/last 24 of each length %d..%d; "
                              "rejection of r in [-n!-1, -1] and [n!, 2n!+1] for n <= %d and of "
                              "r in [-60, -1] without a length"
                              % (len(ref) - 1, N, N + 1, top, 5 if quick else 6))
        ctx.section("rank", evaluations=ctx.evals - e0)
    if want("scale"):
        e0 = ctx.evals
        lens = list(range(13, 27 if quick else 41))
        ctx.pmap(shard_scale_rank, [(n,) for n in lens])
        ctx.pmap(shard_scale_long, [(n,) for n in LONG_SIZES])
        ctx.bounds["scale"] = {
            "rank_lengths": lens,
            "ranks": "per length n: 0, n!-1; q*(m-1)! + {-1,0,1} for every suffix length m = 2..n "
                     "and q = 1..m-1, behind an increasing and behind a decreasing prefix of "
                     "length n-m; 2^e + {-1,0,1}, e = 52..70, where < n!  (%d ranks at n = %d): "
                     "unrank(r, n), unrank(offset+r), rank() against the integer-only Lehmer "
                     "reference; unrank strictly increasing along the sorted family"
                     % (len(RC.scale_ranks(lens[-1])), lens[-1]),
            "perms": "per length n: identity, reverse, every adjacent transposition, rotations, "
                     "k*i mod n, layered, `q then decreasing rest` behind increasing prefixes of "
                     "length 0..3: rank() by counting, unrank back",
            "long_sizes": list(LONG_SIZES),
            "long": "thinned shapes at the long sizes: rank/unrank, repr/one_based/validated/"
                    "to_standard (also 2v+1, floats, ties v//2), validated rejects out-of-range "
                    "and duplicate at the top value"}
        ctx.section("scale", evaluations=ctx.evals - e0)
    if want("order"):
        e0 = ctx.evals
        m = 5 if quick else 6
        refm = RC.graded(m)
        ctx.pmap(shard_order, [(m, lo, hi) for lo, hi in chunks(len(refm), 8 if quick else 16)])
        sn = 7 if quick else 8
        ctx.pmap(shard_sorted, [(sn, name) for name in ARRANGEMENTS])
        ctx.pmap(shard_adjacent, [(N, lo, hi) for lo, hi in chunks(len(ref), 8192)])
        ctx.bounds["order"] = ("all ordered pairs of permutations of length <= %d, six operators; "
                               "sorted/min/max of four arrangements of S<=%d; all adjacent pairs "
                               "of S<=%d both ways" % (m, sn, N))
        ctx.section("order", evaluations=ctx.evals - e0)
    if want("std"):
        e0 = ctx.evals
        plan = [(5, 6), (3, 8), (2, 11)] if quick else [(6, 7), (4, 9), (3, 11), (2, 14)]
        shards = []
        for a, maxlen in plan:
            for length in range(0, maxlen + 1):
                for lo, hi in chunks(a ** length, 6000):
                    for order in (0, 1):
                        shards.append((a, length, lo, hi, order))
        shards.sort(key=lambda s: (s[1], s[0], s[2], s[4]))      # shortest sequences first
        ctx.pmap(shard_std, shards)
        ctx.bounds["std"] = {"alphabet_size, max_length": plan, "variants": list(VARIANT_ORDER),
                             "variant_orders": 2,
                             "note": "all sequences over {0..a-1} of every length <= max"}
        ctx.section("std", evaluations=ctx.evals - e0)
    if want("notation"):
        e0 = ctx.evals
        shards = [("graded", N, lo, hi) for lo, hi in chunks(len(ref), 4096)]
        if quick:
            shards += [("ends", 9, 5040), ("ends", 10, 5040)]
            ctx.bounds["notation"] = ("all permutations of length <= 8; the first and last 5040 "
                                      "(lexicographically) of lengths 9 and 10")
        else:
            shards += [("prefix", 10, (a, b)) for a in range(10) for b in range(10) if a != b]
            ctx.bounds["notation"] = "all permutations of length <= 10"
        ctx.pmap(shard_notation, shards)
        ctx.section("notation", evaluations=ctx.evals - e0)
    if want("validated"):
        e0 = ctx.evals
        vn = 5 if quick else 6
        shards = [(n, lo, hi) for n in range(0, vn + 1)
                  for lo, hi in chunks((n + 2) ** n, 20000)]
        ctx.pmap(shard_validated, shards)
        ctx.pmap(shard_validated_type, [(4 if quick else 5,)])
        ctx.bounds["validated"] = ("all tuples over {-1..n}^n, n <= %d, as tuple/list/generator "
                                   "(and as string when all entries are digits); one entry of "
                                   "each permutation of length <= %d replaced by each of %s"
                                   % (vn, 4 if quick else 5, sorted(BAD_VALUES)))
        ctx.section("validated", evaluations=ctx.evals - e0)
    if want("forms"):
        e0 = ctx.evals
        fa, fl = (4, 5) if quick else (5, 6)
        shards = [(fa, length, lo, hi) for length in range(0, fl + 1)
                  for lo, hi in chunks(fa ** length, 500)]
        ctx.pmap(shard_std_forms, shards)
        vn = 4 if quick else 5
        ctx.pmap(shard_validated_forms, [(n, lo, hi) for n in range(0, vn + 1)
                                         for lo, hi in chunks((n + 2) ** n, 2000)])
        ctx.pmap(shard_entry_forms, [(0,), (1,)])  # (1,) is empty: forces a forked worker
        ctx.bounds["forms"] = {
            "to_standard": "all sequences over {0..%d} of length <= %d x containers (tuple, list, "
                           "iter, generator expression, map, reversed, deque, array, bytes, "
                           "bytearray, chain, list subclass, dict / dict keys when distinct, "
                           "range when it is one) with int entries, keyword argument, both aliases; "
                           "x element types %s in list/generator/map/tuple"
                           % (fa - 1, fl, sorted(FORM_TYPES)),
            "from_iterable_validated": "all tuples over {-1..n}^n, n <= %d x forms (iter, map, "
                                       "deque, reversed, array, bytes, dict keys, list subclass, "
                                       "Perm object, keyword) accept iff bijection else ValueError; "
                                       "every entry as %s -> TypeError (ValueError allowed when the "
                                       "integers are no bijection)" % (vn, sorted(VALIDATED_TYPES)),
            "entry_points": "keyword/positional/alias forms of of_length, up_to_length, first, "
                            "unrank (all ranks < 34), rank, one_based; MeshPatt(...).rank() for "
                            "every shading of every pattern of length <= 2 given as list, reversed "
                            "list, set, frozenset, generator, with repeated cells, tuple, dict; "
                            "keyword forms of MeshPatt, MeshPatt.unrank, MeshPatt.of_length"}
        ctx.section("forms", evaluations=ctx.evals - e0)
    if want("aliasing"):
        e0 = ctx.evals
        ctx.pmap(shard_aliasing, [(0,), (1,)])     # two shards: never run in the parent process
        ctx.bounds["aliasing"] = ("%d queries (generators, MeshPatt.of_length, shading of "
                                  "MeshPatt.unrank, to_standard, unrank) x every route x damages "
                                  "%s: whatever mutable container is handed out is damaged in "
                                  "place, then every route is asked again"
                                  % (len(_alias_queries()), list(DAMAGES)))
        ctx.section("aliasing", evaluations=ctx.evals - e0,
                    containers_damaged=ctx.counters.get("aliasing_containers_damaged", 0))
    if want("abort"):
        e0 = ctx.evals
        totals = ctx.pmap(shard_abort, [(st, op) for st in ABORT_STATES for op in ABORT_OPS])
        npoints = sum(t for t in totals if t)
        ctx.traces += npoints
        ctx.bounds["abort"] = {"operations": [list(op) for op in ABORT_OPS],
                               "starting_states": list(ABORT_STATES),
                               "injection_points": npoints,
                               "injection": "_Abort(BaseException) at the k-th call event inside "
                                            "permuta/, every k; then the same operation again, the "
                                            "objects it worked on, and the whole read-back battery"}
        ctx.section("abort", injection_points=npoints, evaluations=ctx.evals - e0)
    if want("mesh"):
        e0 = ctx.evals
        shards = [("all", p) for k in (0, 1, 2) for p in RC.lex_perms(k)]
        shards += [("of_length", k) for k in (0, 1, 2)]
        shards += [("reject", 3)]
        if not quick:
            shards += [("of_length", 3)]
        shards += [("sparse+of_length" if quick else "all", p) for p in RC.lex_perms(3)]
        if not quick:
            shards += [("sparse", p) for p in RC.lex_perms(4)]
        bigk = (4, 5, 6, 7, 8) if quick else (4, 5, 6, 7, 8, 9, 10)   # k >= 7: ranks >= 2^53
        shards += [("big", p) for k in bigk for p in big_patterns(k)]
        ctx.pmap(shard_mesh, shards)
        ctx.bounds["mesh"] = (
            "every pattern of length k <= 3: of_length(k, patt) item by item (all 2^((k+1)^2) "
            "numbers); unrank/rank/rank-of-constructed/unrank(rank) for every number when k <= %d"
            "%s; of_length(k) for k <= %d; rejection of -2, -1, 2^N, 2^N+1, 2^(N+1) for k <= 3%s"
            % (2 if quick else 3,
               ", for k = 3 every number < 4096, every number with <= 2 bits set or <= 2 bits "
               "clear, and 2^i - 1" if quick else "",
               2 if quick else 3,
               "" if quick else "; k = 4: every number with <= 2 bits set or clear and 2^i - 1, "
               "all 24 patterns"))
        ctx.bounds["mesh_big_grids"] = (
            "k = %s, patterns identity and 1..k-1,0: every rank with <= 2 bits set or <= 2 bits "
            "clear, 2^i - 1, 2^i, every full row / column of cells and complements, every rank "
            "whose set bits lie in one aligned window of 8 bits and its complement (%s ranks per "
            "pattern): unrank against the reference layout, rank(unrank(r)), rank of the "
            "independently built pattern, unrank(rank), injectivity inside the family; rejection "
            "of -2, -1, 2^N, 2^N+1, 2^(N+1); first 4096 items of of_length(k, patt)"
            % (list(bigk), [len(big_family(k)) for k in bigk]))
        ctx.section("mesh", evaluations=ctx.evals - e0)
    if want("history"):
        e0 = ctx.evals
        depth = {"fresh": 3, "warm": 3, "full": 2} if quick else {"fresh": 4, "warm": 4, "full": 3}
        rdepth = 3 if quick else 4
        shards = [("std", fam, init, depth[init]) for init in INITS for fam in FAMILIES]
        rmodel = RankHistory()
        shards += [("rank", op, rdepth) for op in rmodel.menu if op[0] != "gstep"]
        res = ctx.pmap(shard_history, shards)
        gdepth = 7 if quick else 8
        gmodel = GenHistory()
        gshards = [(h, 1) for h in gen_initials(gmodel, 1)]       # the one-operation histories
        gshards += [(h, gdepth) for h in gen_initials(gmodel, 2)]
        res += ctx.pmap(shard_history_gen, gshards)
        res = [r for r in res if r is not None]     # None: shard died inside the library
        ctx.states += sum(r[0] for r in res)
        ctx.transitions += sum(r[1] for r in res)
        ctx.traces += sum(r[1] for r in res)
        ctx.bounds["history"] = {
            "std": {"families": {f: [repr(k) for k in FAMILIES[f]["keys"]] for f in FAMILIES},
                    "initial_states": list(INITS), "depth": depth,
                    "menu_size": {f: len(StdHistory(f, "fresh").menu) for f in FAMILIES}},
            "rank": {"depth": rdepth, "menu_size": len(rmodel.menu), "live_generators": MAXG,
                     "merging": "none (state = history)"},
            "gen": {"depth": gdepth, "kinds": [list(k) for k in gmodel.KINDS],
                    "live_generators": gmodel.GMAX, "merging": "none (state = history)",
                    "epilogue": "after every history, in three clean replays: [read-back "
                                "first(%d), of_length(3), up_to_length(3)]; drain all live "
                                "generators (creation / creation / reverse order); read-back "
                                "first(%d), of_length(3), up_to_length(3)"
                                % (gmodel.K, gmodel.K2)}}
        ctx.section("history", states=ctx.states, transitions=ctx.transitions,
                    evaluations=ctx.evals - e0)
        if want("fresh"):
            samples = [s for r in res for s in r[3]]
            nf = (6, 2) if quick else (16, 4)
            samples = [s for s in samples if s[1] != "full"][:nf[0]] + \
                      [s for s in samples if s[1] == "full"][:nf[1]]
            same = ctx.pmap(shard_fresh, [smp + (samples,) for smp in samples])
            if not all(x for x in same if x is not None):
                ctx.cap("state after a replay in the worker differs from the state after the same "
                        "history in a fresh interpreter: reset by name is incomplete")
            ctx.traces += len(samples)
            ctx.bounds["fresh"] = "%d explored histories re-run in a fresh interpreter" % len(samples)
            ctx.section("fresh", histories=len(samples))
    if ref and only is None:
        ctx.sample({"sub": "rank", "r": 153, "perm": ref[153]}, cap=12)
        ctx.sample({"sub": "notation", "p": ref[100], "str": RC.digits0(ref[100]),
                    "one_based_integer": int(RC.digits1(ref[100]))}, cap=12)


# --------------------------------------------------------------------------------------------

def replay(ctx, rec):
    """The recorded case is evaluated up to three times in this process and the first failure is
    reported: a failure that needs an earlier call in the same process (state kept between
    calls) then shows on the second evaluation, and the verdict is the same however often
    replay() is called."""
    for _ in range(3):
        tmp = Partial()
        replay_once(tmp, rec)
        if tmp.viols:
            v = tmp.viols[0]
            ctx.violation(v["sub"], rec["case"], v["detail"], v["sig"])
            return


def replay_once(part, rec):
    snapshot_pristine()
    Perm, MeshPatt = _P(), _M()
    sub, case = rec["sub"], rec["case"]
    if sub == "gen":
        check_gen(part, case["kind"], case["n"])
    elif sub == "first":
        k = case["k"]
        n = 0
        while RC.offset(n + 1) < k:
            n += 1
        check_first(part, k, RC.graded(n))
    elif sub == "rank":
        if "alias" in case:
            name = case["alias"]
            f = getattr(Perm, name, None)
            g5 = RC.graded(4)
            try:
                if name == "ind2perm":
                    ok = all(tuple(f(r)) == g5[r] for r in range(len(g5)))
                else:
                    ok = all(f(Perm(g5[r])) == r for r in range(len(g5)))
            except Exception:  # noqa
                ok = False
            if not ok:
                part.violation("rank", case, {"alias_of": "unrank/rank"})
        elif "r" in case:
            r = case["r"]
            n = 0
            while RC.offset(n + 1) <= r:
                n += 1
            p = next(itertools.islice(RC.lex_perms(n), r - RC.offset(n), None))
            d = rank_case(Perm, r, p)
            if d is not None:
                part.violation("rank", case, d)
        else:
            n, end, i = case["n"], case["end"], case["i"]
            p = boundary_perm(n, end, i)
            r = RC.offset(n) + i if end == "first" else RC.offset(n + 1) - 1 - i
            d = rank_case(Perm, r, p)
            if d is not None:
                part.violation("rank", case, d)
    elif sub == "std_forms":
        check_std_form(part, Perm, tuple(case["seq"]), case["container"], case["type"], case["how"])
    elif sub == "validated_forms":
        check_validated_form(part, Perm, tuple(case["t"]), case["form"])
    elif sub == "entry_forms":
        tmp = Partial()
        tmp.MAXV = 10 ** 6
        check_entry_forms(tmp)
        for v in tmp.viols:
            if v["case"] == case:
                part.violation(sub, case, v["detail"])
                break
    elif sub == "aliasing":
        tmp = Partial()
        tmp.MAXV = 10 ** 6
        reset_hidden()
        check_aliasing(tmp)
        for v in tmp.viols:
            if v["case"] == case:
                part.violation(sub, case, v["detail"])
                break
    elif sub == "abort":
        root = os.path.join(os.path.abspath(REPO), "permuta") + os.sep
        old_hook = sys.unraisablehook
        sys.unraisablehook = lambda unraisable: None
        try:
            d, _, _ = abort_case(case["state"], tuple(case["op"]), case["abort_at_call"], root)
        finally:
            sys.unraisablehook = old_hook
        if d is not None:
            part.violation(sub, case, d)
    elif sub == "scale_rank":
        n, r = case["n"], case["r"]
        d = rank_case(Perm, RC.offset(n) + r, RC.lehmer_unrank(r, n))
        if d is not None:
            part.violation(sub, case, d)
    elif sub == "scale_mono":
        d = scale_mono_case(Perm, case["n"], case["r1"], case["r2"])
        if d is not None:
            part.violation(sub, case, d)
    elif sub == "scale_perm":
        p = tuple(case["p"])
        d = rank_case(Perm, RC.offset(len(p)) + RC.rank_by_counting(p), p)
        if d is not None:
            part.violation(sub, case, d)
    elif sub == "scale_long":
        d = long_case(Perm, tuple(case["p"]))
        if d is not None:
            part.violation(sub, case, d)
    elif sub == "rank_reject":
        check_reject(part, case["r"], case["n"])
    elif sub == "order":
        a, b = tuple(case["a"]), tuple(case["b"])
        key = lambda p: (len(p), p)  # noqa: E731
        ia, ib = (0, 1) if key(a) < key(b) else ((1, 0) if key(a) > key(b) else (0, 0))
        d = order_case(Perm, a, ia, b, ib)
        if d is not None:
            part.violation("order", case, d)
    elif sub == "sorted":
        check_sorted(part, case["n"], case["arrangement"])
    elif sub == "std":
        check_std(part, Perm, tuple(case["seq"]), case["variant"], case["entry"])
    elif sub == "notation":
        if "alias" in case:
            f = getattr(Perm, case["alias"], None)
            try:
                ok = f is not None and tuple(f((3, 1, 2))) == (2, 0, 1)
            except Exception:  # noqa
                ok = False
            if not ok:
                part.violation("notation", case, {"alias_of": "one_based"})
        else:
            p = tuple(case["p"])
            d = notation_case(Perm, p)
            if not p:
                try:
                    e = Perm.from_string("ε")
                    if not is_perm_obj(Perm, e, ()):
                        d = dict(d or {}, **{"from_string(epsilon)": describe(e)})
                except Exception as exc:  # noqa
                    d = dict(d or {}, **{"from_string(epsilon)": repr(exc)})
            if d is not None:
                part.violation("notation", case, d)
    elif sub == "validated":
        check_validated(part, Perm, tuple(case["t"]), case["form"])
    elif sub == "validated_type":
        check_validated_type(part, Perm, tuple(case["p"]), case["i"], case["bad"])
    elif sub in ("mesh_bij", "mesh_layout"):
        perm = tuple(case["perm"])
        if case["r"] is None:
            k = len(perm)
            seen = set()
            fam = (range(1 << ((k + 1) ** 2)) if k <= 2 else
                   sparse_numbers(k, 4096) if k == 3 else big_family(k))
            for r in fam:
                try:
                    seen.add(frozenset(MeshPatt.unrank(Perm(perm), r).shading))
                except Exception:  # noqa
                    pass
            if len(seen) != len(fam):
                part.violation("mesh_bij", case, {"distinct_shadings": len(seen)})
        else:
            bij, lay = mesh_case(Perm, MeshPatt, perm, case["r"])
            tmp = Partial()
            check_mesh_of_length(tmp, len(perm), perm, limit=None if len(perm) <= 3 else 4096)
            extra = [v for v in tmp.viols if v["sub"] == sub]
            if sub == "mesh_bij" and bij:
                part.violation(sub, case, bij)
            elif sub == "mesh_layout" and (lay or extra):
                part.violation(sub, case, lay or extra[0]["detail"])
    elif sub == "mesh_of_length":
        check_mesh_of_length(part, case["k"], None if case["patt"] is None else tuple(case["patt"]),
                             limit=case.get("limit"))
    elif sub == "mesh_reject":
        check_mesh_reject(part, tuple(case["perm"]), case["r"])
    elif sub in ("history_std", "history_rank", "history_gen", "fresh"):
        hist = to_hist(case["history"])
        if case["model"] == "std":
            model = StdHistory(case["family"], case["init"])
            start = 2
        elif case["model"] == "gen":
            model = GenHistory()
            start = 1
        else:
            model = RankHistory()
            start = 1
        if sub == "fresh":
            tmp = Partial()
            shard_fresh_into(tmp, case)
            for v in tmp.viols:
                part.violation("fresh", case, v["detail"])
            return
        for i in range(start, len(hist) + 1):
            _, viols = model.build(hist[:i])
            if viols:
                part.violation(sub, case, viols[0])
                break
    else:
        raise ValueError("unknown sub-check %r" % sub)


def shard_fresh_into(part, case):
    res, _ = shard_fresh((case["family"], case["init"], to_hist(case["history"])))
    part.viols.extend(res.viols)
    part.nviol += res.nviol
