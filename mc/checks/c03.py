"""C03 - mesh / bivincular / vincular / covincular occurrences in permutations are exact.

E1 only (the code under test keeps no state between calls apart from the memo of the underlying
Perm, which C01 explores).  Every sub-check enumerates a stated finite space completely:

  mesh     every mesh pattern of length <= 2 (ALL 2^((k+1)^2) shadings) x every text of S<=n
  mesh3    length 3: shadings with <= 2 or >= 14 cells, all unions of full rows/columns, the
           patterns used in the code base  x  S<=n ;  thorough: ALL 2^16 shadings x S3+S4
  big      length 4: 0/1 (thorough also 24/25) shaded cells, thorough also every vincular and
           covincular set and bivincular one column x one row  x  texts of length 4..6;
           the seven mesh patterns used in the code base (lengths 3, 4, 6) x texts up to length 7/8
  dense    texts with very many classical occurrences: all layered permutations and their reverses
           of length 7..10 (thorough ..11) x 145 patterns (many shadings per underlying pattern,
           queried one after the other on the same text object)
  scale    pattern nearly as long as the text (n - k <= 4 at n = 9..12; n - k <= 18 at n = 31..34;
           n - k <= 6 at n = 255..258) on structured texts: sizes that straddle thresholds of the
           runtime (set tables of 8 and 32 slots, small-int cache)
  biv      every BivincularPatt / VincularPatt / CovincularPatt of length <= 3 (all adjacency
           sets) against the adjacency oracle, which never looks at shadings
  bivreq   get_adjacent_requirements describes the same pattern; argument order/iterators
  mixed    Perm.contains / avoids / avoids_set / in with mixed lists of classical and mesh-type
           patterns: all ordered pairs and unordered triples of a 26-pattern pool
Occurrence lists are compared as sorted lists (multiset; the docstrings do not promise an order).
"""
from __future__ import annotations

import itertools
import math

from .. import ref_c03 as X
from .. import refmodel as R
from ..core import Partial

PROPERTY = "C03"
LEVEL = "exploration"


def _lib():
    import permuta
    return permuta


# --------------------------------------------------------------------------------------------
# pattern specifications (plain data) and their realisation as library objects
# --------------------------------------------------------------------------------------------
# spec = (kind, patt, a, b)
#   kind "mesh":   a = sorted tuple of cells, b = None
#   kind "biv":    a = adjacent indices, b = adjacent values
#   kind "vinc":   a = adjacent indices, b = ()
#   kind "covinc": a = (), b = adjacent values
#   kind "perm":   classical pattern (only in `mixed`)

def mesh_spec(patt, shading):
    return ("mesh", tuple(patt), tuple(sorted(tuple(c) for c in shading)), None)


def spec_case(spec, text=None):
    kind, patt, a, b = spec
    case = {"kind": kind, "patt": list(patt)}
    if kind == "mesh":
        case["shading"] = [list(c) for c in a]
    elif kind != "perm":
        case["adj_idx"] = list(a)
        case["adj_val"] = list(b)
    if text is not None:
        case["text"] = list(text)
    return case


def case_spec(case):
    kind = case["kind"]
    patt = tuple(case["patt"])
    if kind == "mesh":
        return ("mesh", patt, tuple(sorted(tuple(c) for c in case["shading"])), None)
    if kind == "perm":
        return ("perm", patt, None, None)
    return (kind, patt, tuple(case["adj_idx"]), tuple(case["adj_val"]))


def make(spec):
    """The library object for a spec."""
    lib = _lib()
    kind, patt, a, b = spec
    P = lib.Perm(patt)
    if kind == "perm":
        return P
    if kind == "mesh":
        return lib.MeshPatt(P, a)
    if kind == "biv":
        return lib.BivincularPatt(P, a, b)
    if kind == "vinc":
        return lib.VincularPatt(P, a)
    if kind == "covinc":
        return lib.CovincularPatt(P, b)
    raise ValueError(kind)


def spec_shading(spec):
    """The shading a spec stands for (reference side)."""
    kind, patt, a, b = spec
    if kind == "mesh":
        return frozenset(a)
    if kind == "perm":
        return frozenset()
    return X.biv_shading(len(patt), a, b)


def naive_ref(spec, text):
    """One-shot definitional answer (used by replay and by the self-check)."""
    kind, patt, a, b = spec
    if len(text) > 8:
        # combinations + standardisation is exponential here: prefix extension (ref_c03)
        return X.mesh_from_table(X.mesh_table_dfs(patt, text), spec_shading(spec))
    if kind == "mesh":
        return R.mesh_occurrences(patt, a, text)
    if kind == "perm":
        return R.occurrences(patt, text)
    return R.biv_occurrences(patt, a, b, text)


class Tables:
    """Per text: the shading-independent part of the reference, once per underlying pattern."""

    def __init__(self, text):
        self.text = text
        self.mesh = {}
        self.biv = {}

    def ref(self, spec):
        kind, patt, a, b = spec
        if kind == "mesh":
            t = self.mesh.get(patt)
            if t is None:
                t = self.mesh[patt] = X.mesh_table(patt, self.text)
            return X.mesh_from_table(t, a), len(t)
        if kind == "perm":
            r = R.occurrences(patt, self.text)
            return r, len(r)
        t = self.biv.get(patt)
        if t is None:
            t = self.biv[patt] = X.biv_table(patt, self.text)
        return X.biv_from_table(t, a, b), len(t)


# --------------------------------------------------------------------------------------------
# one (pattern, text) pair
# --------------------------------------------------------------------------------------------

def check_pair(part, sub, spec, obj, text, T, ref, derived):
    """obj.occurrences_in(T) (and, if derived, every observer built on it) against ref.
    Returns True iff the occurrence list was right."""
    try:
        got = list(obj.occurrences_in(T))
    except Exception as exc:  # noqa
        part.violation(sub, spec_case(spec, text), {"exception": repr(exc), "expected": ref})
        return False
    if sorted(got) != ref:
        part.violation(sub, spec_case(spec, text), {"expected": ref, "got": got})
        return False
    if not derived:
        return True
    obs = {}
    nocc, has = len(ref), bool(ref)
    try:
        obs["occurrences_of"] = sorted(T.occurrences_of(obj)) == ref
        obs["contains"] = T.contains(obj) is has
        obs["avoids"] = T.avoids(obj) is (not has)
        obs["avoids_set"] = T.avoids_set(iter([obj])) is (not has)
        obs["in"] = (obj in T) is has
        obs["count_occurrences_of"] = T.count_occurrences_of(obj) == nocc
        obs["count_occurrences_in"] = obj.count_occurrences_in(T) == nocc
        obs["contained_in"] = obj.contained_in(T) is has
        obs["avoided_by"] = obj.avoided_by(T) is (not has)
    except Exception as exc:  # noqa
        part.violation("derived", spec_case(spec, text), {"exception": repr(exc), "done": obs})
        return True
    bad = [k for k, ok in obs.items() if not ok]
    if bad:
        part.violation("derived", spec_case(spec, text), {"disagree": bad, "nocc": nocc})
    return True


# --------------------------------------------------------------------------------------------
# families
# --------------------------------------------------------------------------------------------

CODEBASE = [
    # permuta/bisc/perm_properties.py, permuta/enumeration_strategies/core_strategies.py
    ((2, 1, 0), [(1, 0), (1, 1), (2, 2)]),                       # simsun
    ((0, 1, 2), [(0, 0), (1, 1), (2, 2), (3, 3)]),               # hard mesh
    ((0, 1, 2), [(0, 3), (1, 2), (2, 1), (3, 0)]),
    ((1, 0, 3, 2), [(2, 2)]),                                    # forest-like
    ((1, 3, 0, 2), [(2, 2)]),                                    # Baxter
    ((2, 0, 3, 1), [(2, 2)]),
    ((0, 1, 5, 2, 3, 4), [(1, 6), (4, 5), (4, 6)]),              # av_231_and_mesh
]


def fam_mesh_all(maxk):
    return [mesh_spec(p, sh) for k in range(maxk + 1) for p in R.perms(k)
            for sh in R.all_shadings(k)]


def fam_mesh3():
    out, seen = [], set()
    k = 3
    adjs = list(X.subsets(range(k + 1)))
    for p in R.perms(k):
        shs = list(X.shadings_by_size(k, (0, 1, 2, 14, 15, 16)))
        shs += [X.biv_shading(k, ai, av) for ai in adjs for av in adjs]
        shs += [frozenset(sh) for q, sh in CODEBASE if q == p]
        for sh in shs:
            s = mesh_spec(p, sh)
            if s not in seen:
                seen.add(s)
                out.append(s)
    return out


def fam_big(quick):
    """Length 4: very light / very heavy shadings, and (thorough) the bivincular classes."""
    out = []
    k = 4
    sizes = (0, 1) if quick else (0, 1, 24, 25)
    for p in R.perms(k):
        for sh in X.shadings_by_size(k, sizes):
            out.append(mesh_spec(p, sh))
        if not quick:
            for a in X.subsets(range(k + 1)):
                out.append(("vinc", p, a, ()))
                out.append(("covinc", p, (), a))
            for c in range(k + 1):
                for r in range(k + 1):
                    out.append(("biv", p, (c,), (r,)))
    return out


def fam_codebase():
    return [mesh_spec(q, sh) for q, sh in CODEBASE]


def fam_biv(maxk):
    out = []
    for k in range(maxk + 1):
        adjs = list(X.subsets(range(k + 1)))
        for p in R.perms(k):
            for ai in adjs:
                for av in adjs:
                    out.append(("biv", p, ai, av))
            for a in adjs:
                out.append(("vinc", p, a, ()))
                out.append(("covinc", p, (), a))
    return out


MIXED_POOL = [
    ("perm", (), None, None), ("perm", (0,), None, None), ("perm", (0, 1), None, None),
    ("perm", (1, 0), None, None), ("perm", (0, 1, 2), None, None), ("perm", (1, 2, 0), None, None),
    mesh_spec((), []), mesh_spec((), [(0, 0)]),
    mesh_spec((0,), []), mesh_spec((0,), [(0, 0)]), mesh_spec((0,), [(1, 1)]),
    mesh_spec((0,), [(0, 1), (1, 0)]), mesh_spec((0,), [(0, 0), (0, 1), (1, 0), (1, 1)]),
    mesh_spec((0, 1), [(1, 1)]), mesh_spec((1, 0), [(1, 1)]),
    mesh_spec((0, 1), [(0, 0), (2, 2)]), mesh_spec((1, 0), [(0, 2)]),
    mesh_spec((0, 1), [(1, 0), (1, 1), (1, 2)]),
    mesh_spec((2, 1, 0), [(1, 0), (1, 1), (2, 2)]),
    ("biv", (0, 1), (1,), ()), ("biv", (1, 0), (), (1,)), ("biv", (0, 1, 2), (1,), (2,)),
    ("vinc", (0, 1), (0,), ()), ("vinc", (1, 2, 0), (1,), ()),
    ("covinc", (1, 0), (), (2,)), ("covinc", (0, 2, 1), (), (1, 2)),
]

_FAM = {}      # name -> list of (spec, obj)   (built in the parent before forking)
_TEXTS = {}    # name -> list of texts (for families of texts that are not a whole S_n)


def compositions(n):
    if n == 0:
        yield ()
        return
    for first in range(1, n + 1):
        for rest in compositions(n - first):
            yield (first,) + rest


def layered_texts(lengths):
    """Every layered permutation (direct sum of decreasing blocks, one per composition of n) and
    its reverse (skew sum of increasing blocks): the texts with the most occurrences of monotone
    patterns; identity and reverse identity are among them."""
    out, seen = [], set()
    for n in lengths:
        for comp in compositions(n):
            t, base = [], 0
            for c in comp:
                t.extend(range(base + c - 1, base - 1, -1))
                base += c
            for cand in (tuple(t), tuple(reversed(t))):
                if cand not in seen:
                    seen.add(cand)
                    out.append(cand)
    return out


def fam_dense():
    """Many different shadings per underlying pattern, queried one after the other on the same text."""
    out = fam_mesh_all(1)
    for p in R.perms(2):
        out += [mesh_spec(p, sh) for sh in X.shadings_by_size(2, (0, 1, 8, 9))]
    for p in ((0, 1, 2), (2, 1, 0)):
        out += [mesh_spec(p, sh) for sh in X.shadings_by_size(3, (0, 1, 15, 16))]
        out += [mesh_spec(p, sh) for q, sh in CODEBASE if q == p]
        for c in range(4):
            out.append(("vinc", p, (c,), ()))
            out.append(("covinc", p, (), (c,)))
    return out


def build_family(name, specs, part):
    lst = []
    for s in specs:
        try:
            lst.append((s, make(s)))
        except Exception as exc:  # noqa
            part.violation("construct", spec_case(s), {"exception": repr(exc)})
    _FAM[name] = lst


def chunks(n, per):
    total = math.factorial(n)
    return [(lo, min(total, lo + per)) for lo in range(0, total, per)]


def text_shards(lengths, cost_per_text, target=2.0e5):
    """[(n, lo, hi)] with about target/cost_per_text texts each, shortest texts first."""
    per = max(1, int(target // max(1, cost_per_text)))
    return [(n, lo, hi) for n in lengths for lo, hi in chunks(n, per)]


def shard_family(shard):
    """Every pattern of a family against every text of the shard."""
    name, sub, n, lo, hi, derived = shard
    lib = _lib()
    part = Partial()
    fam = _FAM[name]
    texts = _TEXTS[n][lo:hi] if isinstance(n, str) else R.perms(n)[lo:hi]
    for t in texts:
        T = lib.Perm(t)
        tab = Tables(t)
        for spec, obj in fam:
            ref, nclass = tab.ref(spec)
            check_pair(part, sub, spec, obj, t, T, ref, derived)
            part.add(1, 1 if 0 < len(ref) < nclass else 0)
            part.bump(sub + ":pairs")
            if 0 < len(ref) < nclass:
                part.bump(sub + ":some-kept-some-rejected")
                if len(part.samples) < 1 and len(spec[1]) >= 2:
                    c = spec_case(spec, t)
                    c["occurrences"] = ref
                    c["classical_occurrences"] = nclass
                    part.sample(c, cap=1)
            elif nclass and not ref:
                part.bump(sub + ":all-rejected")
            elif nclass:
                part.bump(sub + ":none-rejected")
    return part


def shard_allmask(shard):
    """ALL shadings of one underlying pattern of length k (a range of the 2^((k+1)^2) masks)
    against every text of the given lengths."""
    patt, mlo, mhi, lengths = shard
    lib = _lib()
    part = Partial()
    k = len(patt)
    P = lib.Perm(patt)
    texts = [t for n in lengths for t in R.perms(n)]
    TT = [lib.Perm(t) for t in texts]
    tabs = [X.mesh_table(patt, t) for t in texts]
    for mask in range(mlo, mhi):
        sh = X.mask_to_shading(k, mask)
        spec = mesh_spec(patt, sh)
        try:
            obj = lib.MeshPatt(P, spec[2])
        except Exception as exc:  # noqa
            part.violation("construct", spec_case(spec), {"exception": repr(exc)})
            continue
        for t, T, tab in zip(texts, TT, tabs):
            ref = X.mesh_from_table(tab, sh)
            check_pair(part, "mesh3all", spec, obj, t, T, ref, False)
            part.add(1, 1 if 0 < len(ref) < len(tab) else 0)
        part.bump("mesh3all:pairs", len(texts))
    return part


def shard_selfcheck(shard):
    part = Partial()
    part.bump("oracle_selfcheck_comparisons", X.selfcheck(*shard))
    part.bump("oracle_selfcheck_comparisons", X.selfcheck_dfs(4, 6))
    return part


# --------------------------------------------------------------------------------------------
# scale: pattern nearly as long as the text, at lengths that straddle thresholds of the runtime
# (set tables of 8 / 32 slots, small-int cache at 256)
# --------------------------------------------------------------------------------------------

def coprime_multipliers(n, count=3):
    """Multipliers q coprime to n for the texts i -> q*i mod n: the two nearest to n*0.618 and the
    nearest to sqrt(n) (such texts are rigid: a long sub-pattern has very few occurrences)."""
    import math as _m
    cop = [q for q in range(2, n) if _m.gcd(q, n) == 1]
    out = sorted(cop, key=lambda q: (abs(q - n * 0.618), q))[:2]
    for q in sorted(cop, key=lambda q: (abs(q - n ** 0.5), q)):
        if q not in out:
            out.append(q)
            break
    return out[:count]


def scale_texts(n, rigid_only=False):
    """Structured texts of length n.  rigid: i -> q*i mod n (few occurrences of long
    sub-patterns).  Otherwise also: identity, reverse identity, identity with one adjacent
    transposition, rotations of the identity, two-block layered perms and their reverses (for
    n <= 16 every position / rotation / block size, for longer texts those at 0, 1, 2, n//2, n-3,
    n-2, n-1), 'first value q then decreasing', direct sums of 10 / 021 / 120 / 201 with a long
    increasing run (both orders)."""
    out = [tuple(q * i % n for i in range(n)) for q in coprime_multipliers(n, 3)]
    if not rigid_only:
        ident = tuple(range(n))
        out += [ident, ident[::-1]]
        # short texts: every position / rotation / block size; long texts: near the ends and the middle
        where = range(n) if n <= 16 else sorted({0, 1, 2, n // 2, n - 3, n - 2, n - 1})
        for i in where:
            if i + 1 < n:
                t = list(ident)
                t[i], t[i + 1] = t[i + 1], t[i]
                out.append(tuple(t))
        out += [tuple((i + r) % n for i in range(n)) for r in where if r >= 1]
        for c in where:
            if c >= 1:
                t = tuple(range(c - 1, -1, -1)) + tuple(range(n - 1, c - 1, -1))
                out += [t, t[::-1]]
        for q in sorted({0, 1, n // 2, n - 2, n - 1}):
            out.append((q,) + tuple(v for v in range(n - 1, -1, -1) if v != q))
        for small in ((1, 0), (0, 2, 1), (1, 2, 0), (2, 0, 1)):
            m = n - len(small)
            out.append(R.direct_sum(small, tuple(range(m))))
            out.append(R.direct_sum(tuple(range(m)), small))
    seen, res = set(), []
    for t in out:
        if t not in seen and R.is_perm(t):
            seen.add(t)
            res.append(t)
    return res


def scale_deletions(n, dmax):
    """Sets of positions to delete from the text (the pattern is what is left).  Short texts:
    every set of 1..dmax positions out of {0, 1, n//2, n-2, n-1}.  Long texts (n > 16): for
    d = 1, 2, 3, 4, 5, 6, 12, 18 (d <= dmax) the first d entries of four fixed lists that all start
    with the last position (spread out / the last d / the first d-1 / odd positions; for d > 6
    only the spread-out and the odd ones)."""
    if n <= 16:
        probe = sorted({0, 1, n // 2, n - 2, n - 1})
        return [D for d in range(1, dmax + 1) for D in itertools.combinations(probe, d)]
    spread = [n - 1, 0, 8, n - 2, 1, 16] + [i for i in range(2, n - 2, 2) if i not in (8, 16)]
    top = list(range(n - 1, -1, -1))
    bottom = [n - 1] + list(range(0, n - 1))
    odd = [n - 1] + [i for i in range(1, n - 1, 2)] + [i for i in range(0, n - 1, 2)]
    out = []
    for d in (1, 2, 3, 4, 5, 6, 12, 18):
        if d <= dmax:
            # contiguous deletions leave a window of the text, which a periodic text contains at
            # many shifts (expensive for both sides): those only up to d = 6
            for prio in ((spread, top, bottom, odd) if d <= 6 else (spread, odd)):
                D = tuple(sorted(prio[:d]))
                if D not in out:
                    out.append(D)
    return out


def scale_specs(patt, cells):
    """Shadings for a long pattern, built around the cells where the deleted points lie:
    nothing; each such cell and its four neighbours alone; the vincular / covincular / bivincular
    requirements through these cells and at both ends."""
    k = len(patt)
    out = [mesh_spec(patt, [])]
    near = set()
    for (x, y) in cells:
        for (u, v) in ((x, y), (x - 1, y), (x + 1, y), (x, y - 1), (x, y + 1)):
            if 0 <= u <= k and 0 <= v <= k:
                near.add((u, v))
    out += [mesh_spec(patt, [c]) for c in sorted(near)]
    ends = {0, 1, k - 1, k} & set(range(k + 1))
    for c in sorted(ends | {x for x, _ in cells}):
        out.append(("vinc", patt, (c,), ()))
    for r in sorted(ends | {y for _, y in cells}):
        out.append(("covinc", patt, (), (r,)))
    for (x, y) in sorted(cells):
        out.append(("biv", patt, (x,), (y,)))
    return out


def shard_scale(shard):
    n, tlo, thi, dmax, rigid_only = shard
    lib = _lib()
    part = Partial()
    for t in scale_texts(n, rigid_only)[tlo:thi]:
        T = lib.Perm(t)
        done = set()
        for D in scale_deletions(n, dmax):
            keep = [i for i in range(n) if i not in D]
            patt = X.std_sorted([t[i] for i in keep])
            cells = frozenset(R.cell_of(keep, t, i) for i in D)
            key = (patt, cells)
            if key in done:
                continue
            done.add(key)
            table = X.mesh_table_dfs(patt, t)
            assert tuple(keep) in [idx for idx, _ in table]
            for spec in scale_specs(patt, cells):
                try:
                    obj = make(spec)
                except Exception as exc:  # noqa
                    part.violation("construct", spec_case(spec), {"exception": repr(exc)})
                    continue
                ref = X.mesh_from_table(table, spec_shading(spec))
                check_pair(part, "scale", spec, obj, t, T, ref, n <= 10 and len(D) == 1)
                nt = 1 if 0 < len(ref) < len(table) else 0
                part.add(1, nt)
                part.bump("scale:pairs")
                part.bump("scale:n=%d" % n)
                if nt and not part.samples and n >= 33:
                    part.sample({"text_length": n, "pattern_length": len(patt), "deleted": list(D),
                                 "spec": spec_case(spec)["kind"], "occurrences": len(ref),
                                 "classical_occurrences": len(table)}, cap=1)
    return part


def scale_cell_patterns(k):
    """Long underlying patterns: i -> q*i mod k (3 multipliers), identity, reverse identity."""
    out = [tuple(q * i % k for i in range(k)) for q in coprime_multipliers(k, 3)]
    out += [tuple(range(k)), tuple(range(k - 1, -1, -1))]
    seen, res = set(), []
    for p in out:
        if p not in seen and R.is_perm(p):
            seen.add(p)
            res.append(p)
    return res


def scale_probe(k):
    return sorted({v for v in (0, 1, 3, 7, 8, 9, 31, 32, 33, k - 1, k) if 0 <= v <= k})


def shard_scalecells(shard):
    """Pattern side of `scale`: SEVERAL shaded cells in one column (one row) of a long pattern.
    For the columns (rows) c in {0, k//2, k}: every set S of 2..maxsize probe rows (columns)
    gives the shading {(c, r) : r in S} (resp. {(x, c) : x in S}); also the covincular (vincular)
    pattern requiring exactly the rows (columns) S.  Texts: the pattern with ONE extra point in
    box (c, r) for every probe r - inside the shading for r in S, outside otherwise - so kept
    and rejected candidates both occur.  Oracle as everywhere (definition, prefix search)."""
    k, pi, maxsize = shard
    lib = _lib()
    part = Partial()
    patt = scale_cell_patterns(k)[pi]
    probe = scale_probe(k)
    lines = sorted({0, k // 2, k})
    subsets = [S for r in range(2, maxsize + 1) for S in itertools.combinations(probe, r)]
    boxes = sorted({(c, r) for c in lines for r in probe} | {(x, c) for c in lines for x in probe})
    texts = {}
    for (x, y) in boxes:
        t = R.insert_point(patt, x, y)
        texts[(x, y)] = (t, lib.Perm(t), X.mesh_table_dfs(patt, t))
    plan = []          # (spec, boxes whose text is used)
    for c in lines:
        for S in subsets:
            plan.append((mesh_spec(patt, [(c, r) for r in S]), [(c, r) for r in probe]))
            plan.append((mesh_spec(patt, [(x, c) for x in S]), [(x, c) for x in probe]))
    for S in subsets:
        plan.append((("covinc", patt, (), S), [(c, r) for c in lines for r in probe]))
        plan.append((("vinc", patt, S, ()), [(x, c) for c in lines for x in probe]))
    for spec, where in plan:
        try:
            obj = make(spec)
        except Exception as exc:  # noqa
            part.violation("construct", spec_case(spec), {"exception": repr(exc)})
            continue
        sh = spec_shading(spec)
        for box in where:
            t, T, table = texts[box]
            ref = X.mesh_from_table(table, sh)
            check_pair(part, "scale", spec, obj, t, T, ref, False)
            nt = 1 if 0 < len(ref) < len(table) else 0
            part.add(1, nt)
            part.bump("scale:pairs")
            part.bump("scale:several-cells-in-one-line,k=%d" % k)
            if len(ref) < len(table):
                part.bump("scale:several-cells:some-candidate-rejected")
            if ref:
                part.bump("scale:several-cells:some-candidate-kept")
    return part


# --------------------------------------------------------------------------------------------
# get_adjacent_requirements, argument forms
# --------------------------------------------------------------------------------------------

def check_bivreq(part, spec):
    lib = _lib()
    kind, patt, a, b = spec
    k = len(patt)
    want = X.biv_shading(k, a, b)
    case = spec_case(spec)
    try:
        obj = make(spec)
        gi, gv = obj.get_adjacent_requirements()
    except Exception as exc:  # noqa
        part.violation("bivreq", case, {"exception": repr(exc)})
        return
    ok_form = (list(gi) == sorted(set(gi)) and list(gv) == sorted(set(gv))
               and all(isinstance(x, int) and 0 <= x <= k for x in list(gi) + list(gv)))
    if not ok_form or X.biv_shading(k, gi, gv) != want or not set(a) <= set(gi) or not set(b) <= set(gv):
        part.violation("bivreq", case, {"got": [list(gi), list(gv)],
                                        "why": "returned requirements do not describe the pattern"})
    # FRESH: the two lists handed out are the caller's; emptying / extending them must not change
    # what the same object, or a new equal object, answers afterwards
    first = (list(gi), list(gv))
    try:
        if isinstance(gi, list):
            gi.clear()
            gi.append(-1)
        if isinstance(gv, list):
            gv.reverse()
            gv.append(k + 7)
        again = obj.get_adjacent_requirements()
        other = make(spec).get_adjacent_requirements()
        if (list(again[0]), list(again[1])) != first or (list(other[0]), list(other[1])) != first:
            part.violation("fresh", case, {"first": first, "after_damaging_the_result": [list(again[0]), list(again[1])],
                                           "new_equal_object": [list(other[0]), list(other[1])]})
    except Exception as exc:  # noqa
        part.violation("fresh", case, {"exception": repr(exc)})
    # FORMS: the same requirements in every form the signature (Iterable[int]) admits, positional
    # and by keyword
    P = lib.Perm(patt)
    forms = {"reversed": lambda z: tuple(reversed(z)), "list": list, "set": set, "frozenset": frozenset,
             "iterator": iter, "generator": lambda z: (v for v in z), "map": lambda z: map(int, z),
             "repeated": lambda z: tuple(z) + tuple(z), "dict_keys": lambda z: dict.fromkeys(z).keys()}
    for fname, f in forms.items():
        for kw in (False, True):
            try:
                if kind == "biv":
                    o2 = (lib.BivincularPatt(perm=P, adjacent_indices=f(a), adjacent_values=f(b)) if kw
                          else lib.BivincularPatt(P, f(a), f(b)))
                elif kind == "vinc":
                    o2 = lib.VincularPatt(perm=P, adjacent_indices=f(a)) if kw else lib.VincularPatt(P, f(a))
                else:
                    o2 = lib.CovincularPatt(perm=P, adjacent_values=f(b)) if kw else lib.CovincularPatt(P, f(b))
                same = frozenset(o2.shading) == frozenset(obj.shading) == want
            except Exception as exc:  # noqa
                part.violation("bivreq", dict(case, form=fname, keyword=kw), {"exception": repr(exc)})
                continue
            if not same:
                part.violation("bivreq", dict(case, form=fname, keyword=kw),
                               {"why": "same requirements in another form give another pattern"})
            part.bump("forms:biv-constructions")
    part.add(1, 1 if (a or b) and k >= 1 else 0)


SHADING_FORMS = {
    "tuple": tuple, "reversed": lambda z: tuple(reversed(z)), "list": list, "set": set,
    "frozenset": frozenset, "iterator": iter, "generator": lambda z: (c for c in z),
    "map": lambda z: map(tuple, [list(c) for c in z]), "repeated": lambda z: tuple(z) + tuple(z),
    "dict_keys": lambda z: dict.fromkeys(z).keys(),
}


def shard_meshforms(shard):
    """FORMS for the MeshPatt constructor: the same cells as tuple / reversed / list / set /
    frozenset / iterator / generator / map / with every cell twice / dict keys, positional and by
    keyword; the object must have the reference occurrences in every text of S<=3 (searched
    through occurrences_in(patt=...))."""
    lo, hi = shard
    lib = _lib()
    part = Partial()
    texts = [t for n in range(4) for t in R.perms(n)]
    TT = [lib.Perm(t) for t in texts]
    for spec, _ in _FAM["mesh2"][lo:hi]:
        patt, cells = spec[1], spec[2]
        P = lib.Perm(patt)
        refs = [R.mesh_occurrences(patt, cells, t) for t in texts]
        for fname, f in SHADING_FORMS.items():
            for kw in (False, True):
                case = dict(spec_case(spec), form=fname, keyword=kw)
                try:
                    obj = lib.MeshPatt(pattern=P, shading=f(cells)) if kw else lib.MeshPatt(P, f(cells))
                except Exception as exc:  # noqa
                    part.violation("forms", case, {"exception": repr(exc)})
                    continue
                for t, T, ref in zip(texts, TT, refs):
                    try:
                        got = sorted(obj.occurrences_in(patt=T)) if kw else sorted(obj.occurrences_in(T))
                    except Exception as exc:  # noqa
                        part.violation("forms", dict(case, text=list(t)), {"exception": repr(exc)})
                        break
                    if got != ref:
                        part.violation("forms", dict(case, text=list(t)), {"expected": ref, "got": got})
                        break
                part.add(1, 1 if (cells and len(patt) >= 1 and fname not in ("tuple",)) else 0)
                part.bump("forms:mesh-constructions")
    return part


def shard_bivreq(shard):
    part = Partial()
    for spec in fam_biv(shard[0]):
        check_bivreq(part, spec)
        part.bump("bivreq:patterns")
    return part


# --------------------------------------------------------------------------------------------
# mixed argument lists
# --------------------------------------------------------------------------------------------

_NOFORMS = object()


def check_mixed(part, T, t, idxs, objs, c, basis=_NOFORMS):
    args = [objs[i] for i in idxs]
    exp_c = all(c[i] for i in idxs)
    exp_a = all(not c[i] for i in idxs)
    case = {"patts": [spec_case(MIXED_POOL[i]) for i in idxs], "text": list(t)}
    try:
        got = (T.contains(*args), T.avoids(*args), T.avoids_set(args), T.avoids_set(iter(args)))
    except Exception as exc:  # noqa
        part.violation("mixed", case, {"exception": repr(exc)})
        return
    if got != (exp_c, exp_a, exp_a, exp_a):
        part.violation("mixed", case, {"expected": [exp_c, exp_a, exp_a, exp_a], "got": list(got)})
        return
    if basis is _NOFORMS:
        return
    # FORMS: the same patterns in every form contains(*patts) / avoids(*patts) / avoids_set(Iterable)
    # admit; a Basis / MeshBasis of the patterns is avoided iff all of them are (not used for contains)
    rev = args[::-1]
    forms = {
        "contains(*reversed)": lambda: T.contains(*rev) is exp_c,
        "contains(*repeated)": lambda: T.contains(*(args + args)) is exp_c,
        "avoids(*reversed)": lambda: T.avoids(*rev) is exp_a,
        "avoids(*repeated)": lambda: T.avoids(*(args + args)) is exp_a,
        "avoids_set(tuple)": lambda: T.avoids_set(tuple(args)) is exp_a,
        "avoids_set(set)": lambda: T.avoids_set(set(args)) is exp_a,
        "avoids_set(frozenset)": lambda: T.avoids_set(frozenset(args)) is exp_a,
        "avoids_set(generator)": lambda: T.avoids_set(p for p in args) is exp_a,
        "avoids_set(map)": lambda: T.avoids_set(map(lambda p: p, args)) is exp_a,
        "avoids_set(patts=list)": lambda: T.avoids_set(patts=list(rev)) is exp_a,
        "avoids_set(repeated)": lambda: T.avoids_set(args + args) is exp_a,
        "all(p in T)": lambda: all(p in T for p in args) is exp_c,
        "occurrences alias": lambda: all((T.occurrences(p) > 0) is ci for p, ci in zip(args, [c[i] for i in idxs])),
    }
    if basis is not None:
        forms["avoids_set(Basis/MeshBasis)"] = lambda: T.avoids_set(basis) is exp_a
        forms["avoids(*Basis/MeshBasis)"] = lambda: T.avoids(*basis) is exp_a
    bad = []
    for fname, f in forms.items():
        try:
            if not f():
                bad.append(fname)
        except Exception as exc:  # noqa
            bad.append("%s: %r" % (fname, exc))
    if bad:
        part.violation("forms", case, {"forms_that_disagree": bad, "expected_contains_avoids": [exp_c, exp_a]})


def shard_mixed(shard):
    n, lo, hi, triples, forms = shard
    lib = _lib()
    part = Partial()
    objs = [o for _, o in _FAM["mixed"]]
    assert len(objs) == len(MIXED_POOL)
    classical = [s[0] == "perm" for s in MIXED_POOL]
    m = len(objs)
    lists = list(itertools.product(range(m), repeat=2))
    if triples:
        lists += list(itertools.combinations(range(m), 3))
    bases = {}
    if forms:
        for idxs in lists:
            args = [objs[i] for i in idxs]
            try:
                if all(classical[i] for i in idxs):
                    bases[idxs] = lib.Basis(*args)
                else:
                    bases[idxs] = lib.MeshBasis(*args)
            except Exception:  # noqa   (construction of bases is C05's business)
                bases[idxs] = None
    for t in R.perms(n)[lo:hi]:
        T = lib.Perm(t)
        tab = Tables(t)
        c = [bool(tab.ref(s)[0]) for s in MIXED_POOL]
        for idxs in lists:
            check_mixed(part, T, t, idxs, objs, c, bases[idxs] if forms else _NOFORMS)
            if forms:
                part.bump("forms:argument-lists-x-texts")
            mixed_types = any(classical[i] for i in idxs) and not all(classical[i] for i in idxs)
            split = any(c[i] for i in idxs) and not all(c[i] for i in idxs)
            part.add(1, 1 if (mixed_types and split) else 0)
        part.bump("mixed:argument-lists-x-texts", len(lists))
    return part


# --------------------------------------------------------------------------------------------
# ABORT: an exception out of the middle of a search (Ctrl-C, an exception in the caller's loop
# body) must leave the pattern object, the text object and every module-level table usable
# --------------------------------------------------------------------------------------------

class _Abort(BaseException):
    pass


def _run_with_abort(fn, k, root):
    """Run fn(); raise _Abort at the k-th 'call' event of a frame whose code lives under root
    (k=None: never).  Returns (finished?, number of such events seen)."""
    import sys
    seen = [0]

    def tracer(frame, event, arg):
        if event == "call" and frame.f_code.co_filename.startswith(root):
            seen[0] += 1
            if seen[0] == k:
                sys.settrace(None)
                raise _Abort()
        return None

    sys.settrace(tracer)
    try:
        fn()
        return True, seen[0]
    except _Abort:
        return False, seen[0]
    finally:
        sys.settrace(None)


ABORT_SPECS = [
    mesh_spec((), [(0, 0)]),
    mesh_spec((0,), [(0, 1)]),
    mesh_spec((0, 1), [(1, 1)]),
    mesh_spec((1, 0, 2), [(1, 2), (2, 2), (2, 3)]),
    mesh_spec((2, 1, 0), [(1, 0), (1, 1), (2, 2)]),
    ("vinc", (1, 2, 0), (1,), ()),
    ("covinc", (0, 2, 1), (), (1, 2)),
    ("biv", (0, 1, 2), (1,), (2,)),
]
ABORT_TEXTS = [(3, 1, 0, 2, 4), (0, 2, 4, 1, 3, 5)]
ABORT_OPS = ("list", "contains", "avoids2", "count")


def _abort_op(op, obj, other, T):
    if op == "list":
        list(obj.occurrences_in(T))
    elif op == "contains":
        T.contains(obj)
    elif op == "avoids2":
        T.avoids(other, obj)
    elif op == "count":
        T.count_occurrences_of(obj)


def abort_case(part, si, ti, op, warm, k, total_only=False):
    """One injection point.  Objects are new for every attempt (so the memo of the underlying Perm
    is being built when the exception strikes) unless warm (then they have answered a query
    before).  Read back on the same objects, on another text, and on new equal objects."""
    import os
    import signal
    import sys
    from ..core import REPO
    lib = _lib()
    root = os.path.join(os.path.abspath(REPO), "permuta") + os.sep
    spec, t = ABORT_SPECS[si], ABORT_TEXTS[ti]
    t2 = ABORT_TEXTS[1 - ti]
    other_spec = ABORT_SPECS[(si + 3) % len(ABORT_SPECS)]
    obj, other, T, T2 = make(spec), make(other_spec), lib.Perm(t), lib.Perm(t2)
    if warm:
        list(obj.occurrences_in(T2))
        list(other.occurrences_in(T2))
    # an injection that lands in the finalisation of an abandoned generator is reported by the
    # interpreter as "Exception ignored in ..." - expected here, not worth a line on stderr
    hook0 = sys.unraisablehook
    sys.unraisablehook = lambda unraisable: None
    try:
        finished, total = _run_with_abort(lambda: _abort_op(op, obj, other, T), k, root)
    finally:
        sys.unraisablehook = hook0
    if total_only:
        return total
    ref, ref2, refo = naive_ref(spec, t), naive_ref(spec, t2), naive_ref(other_spec, t)
    case = {"spec": spec_case(spec), "text": list(t), "op": op, "warm": warm, "abort_at_call": k,
            "si": si, "ti": ti}

    def on_alarm(signum, frame):
        raise TimeoutError("read-back did not finish within 20 s")

    old = signal.signal(signal.SIGALRM, on_alarm)
    old_hook = sys.unraisablehook
    sys.unraisablehook = lambda unraisable: None
    signal.alarm(20)
    try:
        got = {
            "same objects": sorted(obj.occurrences_in(T)),
            "same pattern, other text": sorted(obj.occurrences_in(T2)),
            "other pattern, same text": sorted(other.occurrences_in(T)),
            "new equal objects": sorted(make(spec).occurrences_in(lib.Perm(t))),
            "contains": T.contains(obj),
            "avoids": T.avoids(obj, other),
        }
        exp = {"same objects": ref, "same pattern, other text": ref2, "other pattern, same text": refo,
               "new equal objects": ref, "contains": bool(ref), "avoids": not ref and not refo}
        bad = [key for key in exp if got[key] != exp[key]]
        if bad:
            part.violation("abort", case, {"wrong_after_abort": bad, "got": {b: got[b] for b in bad},
                                           "expected": {b: exp[b] for b in bad}})
    except TimeoutError as exc:
        part.violation("abort", case, {"hang": str(exc)})
    except Exception as exc:  # noqa
        part.violation("abort", case, {"exception_in_read_back": repr(exc)})
    finally:
        signal.alarm(0)
        signal.signal(signal.SIGALRM, old)
        sys.unraisablehook = old_hook
    part.add(1, 0 if finished else 1)
    return total


def shard_abort(shard):
    si, ti, op, warm = shard
    part = Partial()
    total = abort_case(part, si, ti, op, warm, None, total_only=True)
    for k in range(1, total + 1):
        abort_case(part, si, ti, op, warm, k)
    part.bump("abort:injection-points", total)
    return part


# --------------------------------------------------------------------------------------------

def run(ctx, only=None):
    def want(name):
        return only is None or name in only

    quick = ctx.quick
    ctx.rule = ("one evaluation = one (pattern, text) pair (or one argument list x text for `mixed`), "
                "each enumerated once; non-trivial = the underlying pattern occurs, at least one "
                "classical occurrence is kept and at least one is rejected by the shading / adjacency "
                "requirements (mixed: classical and mesh-type arguments together, some contained and "
                "some avoided)")
    ctx.assumptions = [
        "reference: mc/refmodel.py mesh_occurrences / biv_occurrences (definitions), tabulated per "
        "(underlying pattern, text) in mc/ref_c03.py and cross-checked against the one-shot "
        "definitions in every run (oracle_selfcheck_comparisons)",
        "occurrence lists are compared as multisets (no order is documented for mesh patterns)",
        "patterns longer than 3 and texts longer than the stated lengths only for the stated families",
    ]
    jobs = []       # (func, shard) ; everything goes through ONE pool so the cores stay busy

    if want("selfcheck"):
        jobs.append((shard_selfcheck, (2, 4)))

    if want("mesh"):
        build_family("mesh2", fam_mesh_all(2), ctx)
        top = 6 if quick else 7
        dtop = 4 if quick else 5
        for n, lo, hi in text_shards(range(0, top + 1), len(_FAM["mesh2"]), 4.0e4):
            jobs.append((shard_family, ("mesh2", "mesh", n, lo, hi, n <= dtop)))
        ctx.bounds["mesh"] = {"patterns": "all %d mesh patterns of length <= 2 (every shading)" % len(_FAM["mesh2"]),
                              "texts": "S<=%d" % top, "derived_observers_for_texts": "S<=%d" % dtop}

    if want("mesh3"):
        build_family("mesh3", fam_mesh3(), ctx)
        top = 5 if quick else 6
        for n, lo, hi in text_shards(range(0, top + 1), len(_FAM["mesh3"]), 4.0e4):
            jobs.append((shard_family, ("mesh3", "mesh3", n, lo, hi, n <= 4)))
        ctx.bounds["mesh3"] = {"patterns": "%d patterns of length 3: <=2 or >=14 shaded cells, all unions of "
                                           "full rows/columns, code-base patterns" % len(_FAM["mesh3"]),
                               "texts": "S<=%d" % top, "derived_observers_for_texts": "S<=4"}
        if not quick:
            step = 1 << 12
            for p in R.perms(3):
                for mlo in range(0, 1 << 16, step):
                    jobs.append((shard_allmask, (p, mlo, mlo + step, (3, 4))))
            ctx.bounds["mesh3all"] = "ALL 6*2^16 mesh patterns of length 3 x texts of length 3 and 4"

    if want("big"):
        build_family("big", fam_big(quick), ctx)
        for n, lo, hi in text_shards([4, 5, 6], len(_FAM["big"]), 4.0e4):
            jobs.append((shard_family, ("big", "big", n, lo, hi, n <= 4)))
        ctx.bounds["big"] = {"patterns": "%d patterns of length 4 (%s)" % (
            len(_FAM["big"]),
            "0/1 shaded cells" if quick else
            "0/1/24/25 shaded cells, all vincular and covincular sets, bivincular one column x one row"),
            "texts": "length 4..6"}
        build_family("codebase", fam_codebase(), ctx)
        top = 7 if quick else 8
        for n, lo, hi in text_shards(range(3, top + 1), len(_FAM["codebase"]), 1.0e4):
            jobs.append((shard_family, ("codebase", "codebase", n, lo, hi, n <= 6)))
        ctx.bounds["codebase"] = {"patterns": "the %d mesh patterns used in permuta/bisc/perm_properties.py "
                                              "(lengths 3, 4, 6)" % len(_FAM["codebase"]),
                                  "texts": "length 3..%d" % top}

    if want("dense"):
        build_family("dense", fam_dense(), ctx)
        lens = (7, 8, 9, 10) if quick else (7, 8, 9, 10, 11)
        _TEXTS["layered"] = layered_texts(lens)
        nt = len(_TEXTS["layered"])
        for lo in range(0, nt, 8):
            jobs.append((shard_family, ("dense", "dense", "layered", lo, min(nt, lo + 8), False)))
        ctx.bounds["dense"] = {
            "texts": "all %d layered permutations and reverses of layered permutations of length %s "
                     "(up to C(n,k) classical occurrences of a monotone pattern)" % (nt, "/".join(map(str, lens))),
            "patterns": "%d: all mesh patterns of length <= 1, length 2 with 0/1/8/9 cells, 012 and 210 with "
                        "0/1/15/16 cells, their code-base shadings and single vincular/covincular requirements; "
                        "all shadings of one underlying pattern are queried one after the other on the same "
                        "text object" % len(_FAM["dense"])}

    if want("scale"):
        small = (9, 10) if quick else (9, 10, 11, 12)
        mid = (31, 32, 33, 34)
        big = (255, 256, 257, 258) if quick else (255, 256, 257, 258, 300)
        for n in small:
            nt = len(scale_texts(n))
            jobs += [(shard_scale, (n, lo, min(nt, lo + 2), 4, False)) for lo in range(0, nt, 2)]
        for n in mid:
            jobs += [(shard_scale, (n, i, i + 1, 18, True)) for i in range(3)]     # rigid texts, d <= 18
            nt = len(scale_texts(n))
            jobs += [(shard_scale, (n, lo, min(nt, lo + 8), 2, False)) for lo in range(3, nt, 8)]
        for n in big:
            jobs += [(shard_scale, (n, i, i + 1, 6, True)) for i in range(3)]
        cell_lengths = [(8, 3), (9, 3), (10, 3), (12, 3), (33, 2)] if quick else \
            [(8, 4), (9, 4), (10, 4), (11, 4), (12, 4), (33, 3), (34, 3)]
        for k, maxsize in cell_lengths:
            jobs += [(shard_scalecells, (k, pi, maxsize)) for pi in range(len(scale_cell_patterns(k)))]
        ctx.bounds["scale_pattern_side"] = {
            "pattern_lengths_and_max_cells_per_line": cell_lengths,
            "underlying_patterns": "q*i mod k (3 multipliers), identity, reverse identity",
            "shadings": "for each column c and each row c in {0, k//2, k}: every set of 2..max probe rows (columns) "
                        "out of {0,1,3,7,8,9,31,32,33,k-1,k} inside that one column (row); covincular / vincular "
                        "patterns requiring exactly such a set of rows / columns",
            "texts": "the pattern plus one point in box (c, r) for every probe r (resp. (x, c) for every probe x)"}
        ctx.bounds["scale"] = {
            "what": "pattern = text minus d positions (so n - k = d), every shading of a family built around "
                    "the cells of the deleted points (single cells, vincular/covincular/bivincular lines)",
            "lengths": {"structured texts (identity, reverse, adjacent transpositions, rotations, 2-block layered, "
                        "q then decreasing, small (+) long increasing, q*i mod n), d = 1..4 out of 5 probe positions":
                        list(small),
                        "q*i mod n (3 multipliers), d in 1,2,3,4,5,6,12,18 (4 deletion sets each, all containing the last position); all structured texts with d <= 2": list(mid),
                        "q*i mod n (3 multipliers), d in 1..6 (4 deletion sets each)": list(big)},
            "reference": "prefix-extension search (ref_c03.occurrences_dfs, cross-checked with combinations on S<=6) + cell_of"}

    if want("biv"):
        build_family("biv", fam_biv(3), ctx)
        top = 6 if quick else 7
        dtop = 4 if quick else 5
        for n, lo, hi in text_shards(range(0, top + 1), len(_FAM["biv"]), 4.0e4):
            jobs.append((shard_family, ("biv", "biv", n, lo, hi, n <= dtop)))
        ctx.bounds["biv"] = {"patterns": "all %d BivincularPatt/VincularPatt/CovincularPatt of length <= 3 "
                                         "(every adjacency set)" % len(_FAM["biv"]),
                             "texts": "S<=%d" % top, "oracle": "adjacency of positions/values on the index tuple"}

    if want("bivreq"):
        jobs.append((shard_bivreq, (3,)))
        ctx.bounds["bivreq"] = "all bivincular/vincular/covincular patterns of length <= 3"

    if want("mixed"):
        build_family("mixed", MIXED_POOL, ctx)
        top = 5 if quick else 6
        ttop = 4 if quick else 5
        for n in range(0, top + 1):
            for lo, hi in chunks(n, 6 if n <= 5 else 12):
                jobs.append((shard_mixed, (n, lo, hi, n <= ttop, n <= ttop)))
        ctx.bounds["mixed"] = {"pool": len(MIXED_POOL), "lists": "all ordered pairs (texts S<=%d) and "
                               "unordered triples (texts S<=%d)" % (top, ttop),
                               "forms": "for texts S<=%d every argument list also reversed, repeated, as tuple / set / "
                                        "frozenset / generator / map / keyword, through `in` and the `occurrences` alias, "
                                        "and as Basis / MeshBasis object (avoids only)" % ttop}

    if want("forms"):
        if "mesh2" not in _FAM:
            build_family("mesh2", fam_mesh_all(2), ctx)
        nm = len(_FAM["mesh2"])
        jobs += [(shard_meshforms, (lo, min(nm, lo + 40))) for lo in range(0, nm, 40)]
        ctx.bounds["forms"] = {"MeshPatt(pattern, shading)": "all %d mesh patterns of length <= 2, shading given in %d forms "
                               "(%s), positional and by keyword, occurrences in every text of S<=3" % (
                                   nm, len(SHADING_FORMS), ", ".join(SHADING_FORMS)),
                               "Bivincular/Vincular/CovincularPatt": "see bivreq: 9 forms x positional/keyword for all "
                                                                     "patterns of length <= 3"}

    if want("abort"):
        shards = [(si, ti, op, warm) for si in range(len(ABORT_SPECS)) for ti in range(len(ABORT_TEXTS))
                  for op in ABORT_OPS for warm in (False, True)]
        jobs += [(shard_abort, sh) for sh in shards]
        ctx.bounds["abort"] = {"operations": list(ABORT_OPS), "patterns": len(ABORT_SPECS), "texts": ABORT_TEXTS,
                               "objects": "new (memo of the underlying Perm not built yet) and warm",
                               "injection": "a BaseException at EVERY 'call' event inside permuta/ during the operation "
                                            "(see counter abort:injection-points)",
                               "read_back": "same objects, other text, other pattern, new equal objects, contains, avoids"}

    ctx.pmap(_dispatch, jobs_register(jobs))
    ctx.section("all", evaluations=ctx.evals, nontrivial=ctx.nontrivial, shards=len(jobs))


_JOBS = []


def jobs_register(jobs):
    """Shards are (index,) into a module-level list inherited by the forked workers."""
    del _JOBS[:]
    _JOBS.extend(jobs)
    return [(i,) for i in range(len(jobs))]


def _dispatch(shard):
    func, arg = _JOBS[shard[0]]
    return func(arg)


# --------------------------------------------------------------------------------------------

def replay(ctx, rec):
    lib = _lib()
    sub, case = rec["sub"], rec["case"]
    if sub in ("mesh", "mesh3", "mesh3all", "big", "codebase", "dense", "scale", "biv", "derived"):
        spec = case_spec(case)
        t = tuple(case["text"])
        try:
            obj = make(spec)
        except Exception as exc:  # noqa
            ctx.violation("construct", spec_case(spec), {"exception": repr(exc)})
            return
        check_pair(ctx, sub if sub != "derived" else "mesh", spec, obj, t, lib.Perm(t),
                   naive_ref(spec, t), True)
    elif sub == "construct":
        spec = case_spec(case)
        try:
            make(spec)
        except Exception as exc:  # noqa
            ctx.violation("construct", spec_case(spec), {"exception": repr(exc)})
    elif sub in ("bivreq", "fresh"):
        c = dict(case)
        c.pop("form", None)
        c.pop("keyword", None)
        check_bivreq(ctx, case_spec(c))
    elif sub == "abort":
        abort_case(ctx, case["si"], case["ti"], case["op"], case["warm"], case["abort_at_call"])
    elif sub == "forms" and "patts" not in case:
        c = dict(case)
        fname, kw = c.pop("form"), c.pop("keyword")
        c.pop("text", None)
        spec = case_spec(c)
        P = lib.Perm(spec[1])
        f = SHADING_FORMS[fname]
        try:
            obj = lib.MeshPatt(pattern=P, shading=f(spec[2])) if kw else lib.MeshPatt(P, f(spec[2]))
            for n in range(4):
                for t in R.perms(n):
                    T = lib.Perm(t)
                    got = sorted(obj.occurrences_in(patt=T)) if kw else sorted(obj.occurrences_in(T))
                    if got != R.mesh_occurrences(spec[1], spec[2], t):
                        ctx.violation("forms", case, {"text": list(t), "got": got})
                        return
        except Exception as exc:  # noqa
            ctx.violation("forms", case, {"exception": repr(exc)})
    elif sub in ("mixed", "forms"):
        specs = [case_spec(c) for c in case["patts"]]
        t = tuple(case["text"])
        T = lib.Perm(t)
        idxs = tuple(MIXED_POOL.index(sp) for sp in specs)
        try:
            objs = [make(sp) for sp in MIXED_POOL]
        except Exception as exc:  # noqa
            ctx.violation("mixed", case, {"exception": repr(exc)})
            return
        c = [bool(naive_ref(sp, t)) for sp in MIXED_POOL]
        args = [objs[i] for i in idxs]
        try:
            basis = lib.Basis(*args) if all(sp[0] == "perm" for sp in specs) else lib.MeshBasis(*args)
        except Exception:  # noqa
            basis = None
        check_mixed(ctx, T, t, idxs, objs, c, basis)
    else:
        raise ValueError("unknown sub-check %r" % sub)
