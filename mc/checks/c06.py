"""C06 - pattern-inside-pattern containment is sound; the induced sub-pattern is the strongest.

E1 only.  Observed at MeshPatt.sub_mesh_pattern, occurrences_in(MeshPatt), contains / avoids / in
between mesh patterns (is_shaded / is_pointfree are only seen through these, so a change of
theirs that sub_mesh_pattern cannot notice stays silent).

  submesh    p.sub_mesh_pattern(I) for EVERY index subset I of every p of the stated families,
             against the region formulation (docstring) -> sub "submesh", and against the
             semantic formulation (strongest pattern implied on those points, computed from the
             occurrences of p in all sigma of length <= |p|+1 resp. <= 5; no regions involved)
             -> sub "strongest".  The two references are asserted equal on everything explored.
  mim        every ORDERED pair (q, p) of mesh patterns of length <= 2 (all shadings):
             q.occurrences_in(p) must be exactly the classical occurrences occ with
             shading(q) <= strongest(p, occ).  A reported occ outside this set is unsound
             ("mim_sound", with a witness sigma and occurrence o of p such that o[occ] is no
             occurrence of q); a missing one is "mim_complete".
  implies    the statement read literally on S<=L: if q is reported to occur in p then every
             sigma in S<=L containing p (reference) contains q (reference).
  mim3       the same with p of length 3 (families), q of length <= 3.
  holes      large regions (need |p| >= 5): for every underlying pattern of length 5 (thorough
             also 6) every point-free rectangle of boxes, shaded completely / minus one box /
             minus one column / minus one row; submesh + strongest for every index subset, and
             small q inside these patterns ("mimh_sound" / "mimh_complete").
  scale      sub_mesh_pattern on long patterns (9..12, 31..34, thorough also 257) with sparse
             index sets containing large indices, given as tuple / reversed tuple / list /
             iterator / set / frozenset ("scale", "scale_strongest"); small q inside them ("mims_*").
  forms/fresh/abort  cross-cutting dimensions: every form of the index argument (submesh);
             the returned MeshPatt edited in place, then asked again ("fresh"); a BaseException
             injected at every call event inside an operation, then read back ("abort").
  derived    contains / avoids / in / contained_in / avoided_by / count_occurrences_in agree
             with occurrences_in;  multi: contains/avoids with two arguments.
  types      q given as Perm (classical, viewed as unshaded), BivincularPatt, VincularPatt,
             CovincularPatt; p given as a bivincular object.
"""
from __future__ import annotations

import itertools

from .. import ref_c06 as Y
from .. import refmodel as R
from ..core import Partial

PROPERTY = "C06"
LEVEL = "exploration"


def _lib():
    import permuta
    return permuta


# --------------------------------------------------------------------------------------------
# specs: (kind, patt, a, b)   kind in mesh (a = sorted cells) / perm / biv / vinc / covinc
# --------------------------------------------------------------------------------------------

def mesh_spec(patt, shading):
    return ("mesh", tuple(patt), tuple(sorted(tuple(c) for c in shading)), None)


def biv_shading(k, adj_idx, adj_val):
    return frozenset([(c, y) for c in adj_idx for y in range(k + 1)]
                     + [(x, r) for r in adj_val for x in range(k + 1)])


def spec_shading(spec):
    kind, patt, a, b = spec
    if kind == "mesh":
        return frozenset(a)
    if kind == "perm":
        return frozenset()
    return biv_shading(len(patt), a, b)


def spec_case(spec):
    kind, patt, a, b = spec
    case = {"kind": kind, "patt": list(patt)}
    if kind == "mesh":
        case["shading"] = [list(c) for c in a]
    elif kind != "perm":
        case["adj_idx"] = list(a)
        case["adj_val"] = list(b)
    return case


def case_spec(case):
    kind, patt = case["kind"], tuple(case["patt"])
    if kind == "mesh":
        return mesh_spec(patt, case["shading"])
    if kind == "perm":
        return ("perm", patt, None, None)
    return (kind, patt, tuple(case["adj_idx"]), tuple(case["adj_val"]))


def make(spec):
    lib = _lib()
    kind, patt, a, b = spec
    P = lib.Perm(patt)
    if kind == "perm":
        return P
    if kind == "mesh":
        return lib.MeshPatt(P, a)
    if kind == "biv":
        return lib.BivincularPatt(P, a, b)
    if kind == "vinc":
        return lib.VincularPatt(P, a)
    if kind == "covinc":
        return lib.CovincularPatt(P, b)
    raise ValueError(kind)


def subsets(seq):
    seq = list(seq)
    for r in range(len(seq) + 1):
        yield from itertools.combinations(seq, r)


def shadings_by_size(k, sizes):
    cells = R.all_cells(k)
    for r in sizes:
        for sub in itertools.combinations(cells, r):
            yield frozenset(sub)


CODEBASE = [
    ((2, 1, 0), [(1, 0), (1, 1), (2, 2)]),
    ((0, 1, 2), [(0, 0), (1, 1), (2, 2), (3, 3)]),
    ((0, 1, 2), [(0, 3), (1, 2), (2, 1), (3, 0)]),
    ((1, 0, 3, 2), [(2, 2)]),
    ((1, 3, 0, 2), [(2, 2)]),
    ((2, 0, 3, 1), [(2, 2)]),
    ((1, 0), [(0, 1), (0, 2), (1, 0), (1, 1), (1, 2), (2, 1), (2, 2)]),
    ((0, 1), [(0, 1), (0, 2), (1, 0), (1, 1), (1, 2), (2, 1), (2, 2)]),
]


def dedup(specs):
    seen, out = set(), []
    for s in specs:
        if s not in seen:
            seen.add(s)
            out.append(s)
    return out


def fam_all(maxk):
    return [mesh_spec(p, sh) for k in range(maxk + 1) for p in R.perms(k)
            for sh in R.all_shadings(k)]


def fam_k(k, sizes, biv=True, codebase=True, lines=None):
    """Mesh patterns of length k: the shadings with the given numbers of cells, the unions of
    full columns/rows (all, or those with a number of lines in `lines`), the code-base patterns."""
    out = []
    adjs = list(subsets(range(k + 1)))
    for p in R.perms(k):
        for sh in shadings_by_size(k, sizes):
            out.append(mesh_spec(p, sh))
        if biv:
            out += [mesh_spec(p, biv_shading(k, ai, av)) for ai in adjs for av in adjs
                    if lines is None or len(ai) + len(av) in lines]
        if codebase:
            out += [mesh_spec(p, sh) for q, sh in CODEBASE if q == p]
    return dedup(out)


_SEM = {}        # (patt, maxlen) -> Y.Sem   (built lazily per worker; small)


def sem_for(patt, maxlen, max_subset=None):
    key = (patt, maxlen, max_subset)
    s = _SEM.get(key)
    if s is None:
        s = _SEM[key] = Y.Sem(patt, maxlen, max_subset)
    return s


def horizon(k):
    """sigma up to this length are used for the semantic reference: |p|+1 decides (see ref_c06);
    for |p| <= 3 we go to 5 as DESIGN.md asks."""
    return max(5, k + 1) if k <= 3 else k + 1


# --------------------------------------------------------------------------------------------
# submesh / strongest
# --------------------------------------------------------------------------------------------

def result_of_sub(obj, I):
    """(pattern tuple, frozenset of cells) or raises."""
    lib = _lib()
    res = obj.sub_mesh_pattern(I)
    if not isinstance(res, lib.MeshPatt):
        raise TypeError("sub_mesh_pattern returned %r" % type(res))
    return tuple(res.pattern), frozenset(res.shading)


def fresh_sub(spec, obj, I, sub, reg):
    lib = _lib()
    try:
        res = obj.sub_mesh_pattern(indices=I)
        try:
            res.shading = frozenset(R.all_cells(len(I))) - frozenset(res.shading)
            res.pattern = lib.Perm(tuple(reversed(res.pattern)))
        except (AttributeError, TypeError):
            pass                         # an immutable result cannot be damaged: fine
        again = result_of_sub(obj, I)
        other = result_of_sub(make(spec), I)
    except Exception as exc:  # noqa
        return {"exception": repr(exc)}
    if again != (sub, reg) or other != (sub, reg):
        return {"expected": [sub, sorted(reg)], "same_object_after_damaging_the_result": [again[0], sorted(again[1])],
                "new_equal_object": [other[0], sorted(other[1])]}
    return None


def check_sub(part, spec, obj, strong, forms):
    """All index subsets of one pattern.  strong = {I: semantic strongest shading}."""
    _, patt, cells, _ = spec
    shading = frozenset(cells)
    nontriv = 0
    for I, sem in strong.items():
        sub, reg = Y.region(patt, shading, I)
        assert reg == sem, ("the two references disagree", patt, sorted(shading), I)
        case = dict(spec_case(spec), indices=list(I))
        try:
            got = result_of_sub(obj, I)
        except Exception as exc:  # noqa
            part.violation("submesh", case, {"exception": repr(exc), "expected": [sub, sorted(reg)]})
            continue
        if got[0] != sub or got[1] != reg:
            part.violation("submesh", case, {"expected": [sub, sorted(reg)], "got": [got[0], sorted(got[1])],
                                             "oracle": "merged region fully shaded and point free"})
        if got[0] != sub or got[1] != sem:
            extra = sorted(got[1] - sem)
            part.violation("strongest", case, {
                "expected": [sub, sorted(sem)], "got": [got[0], sorted(got[1])],
                "oracle": "cell shaded iff no occurrence of p in any sigma has a point there",
                "unsound_cells": extra, "missing_cells": sorted(sem - got[1])})
        if forms:
            # FORMS: the same set of points in every form Iterable[int] admits, and by keyword
            for fname in FORMS:
                if fname == "tuple":
                    continue
                try:
                    g2 = result_of_sub(obj, FORMS[fname](I))
                except Exception as exc:  # noqa
                    part.violation("submesh", dict(case, form=fname), {"exception": repr(exc)})
                    continue
                if g2 != (sub, reg):
                    part.violation("submesh", dict(case, form=fname),
                                   {"expected": [sub, sorted(reg)], "got": [g2[0], sorted(g2[1])]})
                part.bump("forms:sub_mesh_pattern-calls")
            # FRESH: the returned pattern object is the caller's; editing it must not change what the
            # same pattern, or a new equal one, answers afterwards
            bad = fresh_sub(spec, obj, I, sub, reg)
            if bad:
                part.violation("fresh", case, bad)
        # non-trivial: a proper, non-empty subset whose induced pattern has some but not all of the
        # cells shaded that a cell-by-cell copy would give (i.e. merging or a hidden point matters)
        if 0 < len(reg) < (len(I) + 1) ** 2 and len(I) < len(patt):
            nontriv += 1
    part.add(len(strong), nontriv)
    part.bump("submesh:pattern-x-subset", len(strong))


def shard_sub(shard):
    name, lo, hi, forms = shard
    part = Partial()
    for spec, obj in _FAM[name][lo:hi]:
        k = len(spec[1])
        strong = sem_for(spec[1], horizon(k)).strongest_all(frozenset(spec[2]))
        check_sub(part, spec, obj, strong, forms)
        if len(part.samples) < 1 and k >= 2 and 2 <= len(spec[2]) < (k + 1) ** 2:
            I = tuple(range(k - 1))
            part.sample(dict(spec_case(spec), indices=list(I), induced=[
                Y.region(spec[1], frozenset(spec[2]), I)[0],
                sorted(Y.region(spec[1], frozenset(spec[2]), I)[1])]), cap=1)
    return part


def shard_sub_allmask(shard):
    """ALL shadings of one underlying pattern (a range of masks), every index subset."""
    patt, mlo, mhi = shard
    lib = _lib()
    part = Partial()
    k = len(patt)
    P = lib.Perm(patt)
    cells = R.all_cells(k)
    sem = sem_for(patt, k + 1)
    for mask in range(mlo, mhi):
        sh = frozenset(c for i, c in enumerate(cells) if mask >> i & 1)
        spec = mesh_spec(patt, sh)
        try:
            obj = lib.MeshPatt(P, spec[2])
        except Exception as exc:  # noqa
            part.violation("construct", spec_case(spec), {"exception": repr(exc)})
            continue
        check_sub(part, spec, obj, sem.strongest_all(sh), False)
    return part


# --------------------------------------------------------------------------------------------
# mesh in mesh
# --------------------------------------------------------------------------------------------

_FAM = {}       # name -> [(spec, obj)]
_CMASK = {}     # spec -> bitmask over _SIGMAS of the sigma containing the pattern (reference)
_SIGMAS = []
_OCC = {}


def build_family(name, specs, part):
    lst = []
    for s in specs:
        try:
            lst.append((s, make(s)))
        except Exception as exc:  # noqa
            part.violation("construct", spec_case(s), {"exception": repr(exc)})
    _FAM[name] = lst


def classical(qp, pp):
    key = (qp, pp)
    v = _OCC.get(key)
    if v is None:
        v = _OCC[key] = R.occurrences(qp, pp)
    return v


def shard_cmask(shard):
    """Reference containment masks over _SIGMAS for a slice of a family."""
    name, lo, hi = shard
    out = []
    tabs = {}
    for spec, _ in _FAM[name][lo:hi]:
        patt, sh = spec[1], spec_shading(spec)
        m = 0
        for bit, sigma in enumerate(_SIGMAS):
            key = (patt, sigma)
            t = tabs.get(key)
            if t is None:
                t = tabs[key] = [frozenset(R.cell_of(o, sigma, z) for z in range(len(sigma))
                                           if z not in o)
                                 for o in R.occurrences(patt, sigma)]
            if any(occ.isdisjoint(sh) for occ in t):
                m |= 1 << bit
        out.append((spec, m))
    return Partial(), out


def unsound_witness(qspec, pspec, occ):
    """(sigma, o) with o an occurrence of p in sigma and o[occ] not an occurrence of q, or None."""
    qp, qsh = qspec[1], spec_shading(qspec)
    pp, psh = pspec[1], spec_shading(pspec)
    if len(pp) >= 5:
        # all sigma of length |p|+1 are too many: the candidates that decide are p itself and p
        # with one point inserted in a box that is not shaded (ref_c06)
        k = len(pp)
        cands = [(tuple(pp), tuple(range(k)))]
        for bx in range(k + 1):
            for by in range(k + 1):
                if (bx, by) not in psh:
                    cands.append((R.insert_point(pp, bx, by), tuple(i for i in range(k + 1) if i != bx)))
        for sigma, o in cands:
            try:
                image = tuple(o[i] for i in occ)
                ok = (R.std([sigma[i] for i in image]) == tuple(qp) and list(image) == sorted(set(image))
                      and all(R.cell_of(image, sigma, z) not in qsh
                              for z in range(len(sigma)) if z not in image))
            except Exception:  # noqa
                ok = False
            if not ok:
                return sigma, o
        return None
    for n in range(len(pp), horizon(len(pp)) + 1):
        for sigma in R.perms(n):
            qocc = set(R.mesh_occurrences(qp, qsh, sigma))
            for o in R.mesh_occurrences(pp, psh, sigma):
                try:
                    image = tuple(o[i] for i in occ)
                except Exception:  # noqa
                    return sigma, o
                if image not in qocc:
                    return sigma, o
    return None


def check_mim(part, qspec, q, pspec, p, strong, derived, sub="mim", qsh=None):
    """One ordered pair: is q.occurrences_in(p) exactly the pointwise-sound classical occurrences?"""
    qp = qspec[1]
    if qsh is None:
        qsh = spec_shading(qspec)
    pp = pspec[1]
    cl = classical(qp, pp)
    exp = [occ for occ in cl if qsh <= strong[occ]]
    case = {"q": spec_case(qspec), "p": spec_case(pspec)}
    try:
        got = list(q.occurrences_in(p))
    except Exception as exc:  # noqa
        part.violation(sub + "_exception", case, {"exception": repr(exc), "expected": exp})
        return None
    sgot = sorted(got)
    if sgot != exp:
        bad = [o for o in sgot if o not in exp]
        if bad or len(set(sgot)) != len(sgot):
            w = unsound_witness(qspec, pspec, bad[0]) if bad else None
            part.violation(sub + "_sound", case, {
                "reported": got, "sound_occurrences": exp, "unsound": bad,
                "witness": None if w is None else {"sigma": w[0], "occurrence_of_p": w[1]}})
        if [o for o in exp if o not in sgot]:
            part.violation(sub + "_complete", case, {
                "reported": got, "expected": exp,
                "why": "classical occurrence whose induced shading covers q's is not reported"})
        return None
    # the statement read literally: sigma contains p  =>  sigma contains q   (references)
    if got and qspec in _CMASK and pspec in _CMASK:
        diff = _CMASK[pspec] & ~_CMASK[qspec]
        if diff:
            bit = (diff & -diff).bit_length() - 1
            part.violation("implies", case, {"sigma_contains_p_but_not_q": _SIGMAS[bit]})
    if derived:
        has, obs = bool(exp), {}
        try:
            obs["contains"] = p.contains(q) is has
            obs["avoids"] = p.avoids(q) is (not has)
            obs["in"] = (q in p) is has
            obs["contained_in"] = q.contained_in(p) is has
            obs["avoided_by"] = q.avoided_by(p) is (not has)
            obs["count_occurrences_in"] = q.count_occurrences_in(p) == len(exp)
        except Exception as exc:  # noqa
            part.violation("derived", case, {"exception": repr(exc), "done": obs})
            return exp
        wrong = [k for k, ok in obs.items() if not ok]
        if wrong:
            part.violation("derived", case, {"disagree": wrong, "nocc": len(exp)})
    return exp


def strong_of(pspec):
    k = len(pspec[1])
    return sem_for(pspec[1], horizon(k)).strongest_all(spec_shading(pspec))


def shard_mim(shard):
    """p in a slice of family pname, q in all of family qname."""
    sub, qname, pname, lo, hi, dmode = shard
    part = Partial()
    qs = [(qspec, q, spec_shading(qspec)) for qspec, q in _FAM[qname]]
    for pspec, p in _FAM[pname][lo:hi]:
        strong = strong_of(pspec)
        npsh = len(spec_shading(pspec))
        for qspec, q, qsh in qs:
            if dmode == "all":
                derived = True
            elif dmode == "some":
                derived = len(qspec[1]) <= 1 or len(pspec[1]) <= 1 or len(qsh) <= 2
            else:
                derived = False
            exp = check_mim(part, qspec, q, pspec, p, strong, derived, sub, qsh)
            # non-trivial: q shaded, and among the classical occurrences some are kept, some not
            nt = 0
            if exp is not None and qsh:
                ncl = len(classical(qspec[1], pspec[1]))
                if 0 < len(exp) < ncl or (exp and npsh < (len(pspec[1]) + 1) ** 2 and len(qspec[1]) >= 1):
                    nt = 1
            part.add(1, nt)
            part.bump(sub + ":pairs")
            if exp:
                part.bump(sub + ":pairs-with-occurrence")
                if nt and len(part.samples) < 1 and len(qspec[1]) >= 1 and len(qspec[1]) < len(pspec[1]):
                    part.sample({"q": spec_case(qspec), "p": spec_case(pspec), "occurrences": exp}, cap=1)
    return part


# --------------------------------------------------------------------------------------------
# large regions: rectangles of boxes, full or with a hole / a missing line
# --------------------------------------------------------------------------------------------

def pointfree_rects(patt, minside, minsum=0):
    """Every rectangle of boxes [a..b] x [c..d] of the grid of patt with both sides >= minside
    (and width + height >= minsum) that has no point of patt strictly inside."""
    k = len(patt)
    for a in range(k + 1):
        for b in range(a + minside - 1, k + 1):
            for c in range(k + 1):
                for d in range(c + minside - 1, k + 1):
                    if (b - a + 1) + (d - c + 1) < minsum:
                        continue
                    if not any(a <= i < b and c <= patt[i] < d for i in range(k)):
                        yield a, b, c, d


def rect_shadings(rect):
    """The rectangle itself, the rectangle minus one box (every box in turn: corner, border,
    interior), minus one column, minus one row."""
    a, b, c, d = rect
    full = frozenset((x, y) for x in range(a, b + 1) for y in range(c, d + 1))
    out = {full}
    for box in full:
        out.add(full - {box})
    for x in range(a, b + 1):
        out.add(frozenset(z for z in full if z[0] != x))
    for y in range(c, d + 1):
        out.add(frozenset(z for z in full if z[1] != y))
    return out


def holes_of(patt, minside, minsum=0):
    """All distinct shadings of the family for one underlying pattern, in a fixed order."""
    out = set()
    for rect in pointfree_rects(patt, minside, minsum):
        out |= rect_shadings(rect)
    return sorted(out, key=lambda sh: (len(sh), sorted(sh)))


def shard_holes(shard):
    """submesh/strongest for every pattern of the rectangle family over a slice of the
    underlying patterns of length k, every index subset (of size <= max_subset); and, if qname
    is given, every q of that family inside each of these patterns."""
    k, minside, minsum, plo, phi, max_subset, qname, do_sub = shard
    lib = _lib()
    part = Partial()
    qs = [(qspec, q, spec_shading(qspec)) for qspec, q in _FAM[qname]] if qname else []
    for patt in R.perms(k)[plo:phi]:
        sem = sem_for(patt, k + 1, max_subset)
        P = lib.Perm(patt)
        for sh in holes_of(patt, minside, minsum):
            spec = mesh_spec(patt, sh)
            try:
                obj = lib.MeshPatt(P, spec[2])
            except Exception as exc:  # noqa
                part.violation("construct", spec_case(spec), {"exception": repr(exc)})
                continue
            strong = sem.strongest_all(sh)
            if do_sub:
                check_sub(part, spec, obj, strong, False)
                part.bump("holes:patterns")
            for qspec, q, qsh in qs:
                exp = check_mim(part, qspec, q, spec, obj, strong, False, "mimh", qsh)
                nt = 1 if (exp is not None and qsh and 0 < len(exp) < len(classical(qspec[1], patt))) else 0
                part.add(1, nt)
                part.bump("mimh:pairs")
                if exp:
                    part.bump("mimh:pairs-with-occurrence")
        _SEM.pop((patt, k + 1, max_subset), None)
    return part


# --------------------------------------------------------------------------------------------
# scale: long patterns, sparse index sets with large indices, several input forms
# (sizes that straddle thresholds of the runtime: set tables of 8 / 32 slots, small ints <= 256)
# --------------------------------------------------------------------------------------------

FORMS = {
    "tuple": lambda I: tuple(I),
    "reversed": lambda I: tuple(reversed(I)),
    "list": lambda I: list(I),
    "iterator": lambda I: iter(I),
    "set": lambda I: set(I),
    "frozenset": lambda I: frozenset(I),
    "generator": lambda I: (i for i in I),
    "map": lambda I: map(int, I),
    "dict_keys": lambda I: dict.fromkeys(I).keys(),
}


def scale_patterns(n):
    """Underlying patterns of length n: i -> q*i mod n for the two multipliers nearest to
    0.618*n and the one nearest to sqrt(n), identity, reverse identity, the rotation by n//2,
    the two-block layered permutation with first block n//2."""
    import math as _m
    cop = [q for q in range(2, n) if _m.gcd(q, n) == 1]
    qs = sorted(cop, key=lambda q: (abs(q - n * 0.618), q))[:2]
    qs += [q for q in sorted(cop, key=lambda q: (abs(q - n ** 0.5), q)) if q not in qs][:1]
    out = [tuple(q * i % n for i in range(n)) for q in qs]
    ident = tuple(range(n))
    c = n // 2
    out += [ident, ident[::-1], tuple((i + c) % n for i in range(n)),
            tuple(range(c - 1, -1, -1)) + tuple(range(n - 1, c - 1, -1))]
    return dedup(out)


def scale_shadings(n, heavy):
    cells = R.all_cells(n)
    out = [("empty", frozenset()), ("diagonal", frozenset((i, i) for i in range(n + 1)))]
    if heavy:
        out += [("all", frozenset(cells)),
                ("checkerboard", frozenset(c for c in cells if (c[0] + c[1]) % 2 == 0)),
                ("all-but-diagonal", frozenset(c for c in cells if c[0] != c[1]))]
    return out


def scale_index_sets(n, maxsmall):
    """Sparse sets: every subset of size <= maxsmall of the probe positions
    {0,1,2,7,8,9,31,32,33,255,256,257,n-2,n-1} (those < n).  Larger sets: the probe set, the
    probe set minus each element, the even positions, the odd positions, everything, everything
    minus each probe position."""
    probe = sorted({i for i in (0, 1, 2, 7, 8, 9, 31, 32, 33, 255, 256, 257, n - 2, n - 1) if 0 <= i < n})
    out = [I for r in range(maxsmall + 1) for I in itertools.combinations(probe, r)]
    big = [tuple(probe)] + [tuple(i for i in probe if i != e) for e in probe]
    big += [tuple(range(0, n, 2)), tuple(range(1, n, 2)), tuple(range(n))]
    big += [tuple(i for i in range(n) if i != e) for e in probe]
    return dedup(out + big)


def shard_scale(shard):
    n, pi, maxsmall, heavy, forms = shard
    lib = _lib()
    part = Partial()
    patt = scale_patterns(n)[pi]
    P = lib.Perm(patt)
    sets = scale_index_sets(n, maxsmall)
    for shname, sh in scale_shadings(n, heavy):
        spec = mesh_spec(patt, sh)
        try:
            obj = lib.MeshPatt(P, spec[2])
        except Exception as exc:  # noqa
            part.violation("construct", {"kind": "mesh", "patt": list(patt), "shading_name": shname},
                           {"exception": repr(exc)})
            continue
        for I in sets:
            sub, reg = Y.region(patt, sh, I)
            sem = Y.strongest_by_insertion(patt, sh, I)
            assert reg == sem, ("the two references disagree", patt, shname, I)
            for fname in forms:
                case = None
                try:
                    got = result_of_sub(obj, FORMS[fname](I))
                except Exception as exc:  # noqa
                    case = dict(spec_case(spec), indices=list(I), form=fname)
                    part.violation("scale", case, {"exception": repr(exc), "expected": [sub, sorted(reg)]})
                    continue
                if got != (sub, reg):
                    case = dict(spec_case(spec), indices=list(I), form=fname)
                    part.violation("scale", case, {"expected": [sub, sorted(reg)], "got": [got[0], sorted(got[1])],
                                                   "shading_name": shname})
                    part.violation("scale_strongest", case, {
                        "expected": [sub, sorted(sem)], "got": [got[0], sorted(got[1])],
                        "oracle": "cell shaded iff neither a point of p nor a point inserted in an unshaded box lies there"})
                part.add(1, 1 if (0 < len(I) < n and max(I) >= 8) else 0)
                part.bump("scale:calls")
                part.bump("scale:n=%d" % n)
        # small q inside the long pattern (one chosen point): exactly the sound occurrences
        if n <= 12:
            for qspec, q in _FAM["QH"]:
                qsh = spec_shading(qspec)
                strong = {I: Y.strongest_by_insertion(patt, sh, I) for I in classical(qspec[1], patt)}
                exp = check_mim(part, qspec, q, spec, obj, strong, False, "mims", qsh)
                part.add(1, 1 if (exp is not None and qsh and 0 < len(exp) < len(strong)) else 0)
                part.bump("mims:pairs")
    if not part.samples:
        part.sample({"pattern_length": n, "pattern": list(patt) if n <= 12 else "q*i mod n / structured, see bounds",
                     "index_sets": len(sets), "forms": list(forms)}, cap=1)
    return part


# --------------------------------------------------------------------------------------------
# ABORT: an exception out of the middle of a pattern-in-pattern search / of sub_mesh_pattern must
# leave both pattern objects and the process-wide tables (Perm.to_standard's cache) usable
# --------------------------------------------------------------------------------------------

class _Abort(BaseException):
    pass


def _run_with_abort(fn, k, root):
    """Run fn(); raise _Abort at the k-th 'call' event of a frame whose code lives under root
    (k=None: never).  Returns (finished?, number of such events seen)."""
    import sys
    seen = [0]

    def tracer(frame, event, arg):
        if event == "call" and frame.f_code.co_filename.startswith(root):
            seen[0] += 1
            if seen[0] == k:
                sys.settrace(None)
                raise _Abort()
        return None

    sys.settrace(tracer)
    try:
        fn()
        return True, seen[0]
    except _Abort:
        return False, seen[0]
    finally:
        sys.settrace(None)


ABORT_PAIRS = [      # (q, p)
    (mesh_spec((0,), [(0, 0)]), mesh_spec((0, 1), [(0, 0), (0, 1), (1, 0)])),
    (mesh_spec((0, 1), [(1, 1)]), mesh_spec((0, 2, 1), [(1, 1), (1, 2), (2, 1), (2, 2)])),
    (mesh_spec((1, 0), [(0, 2)]), mesh_spec((2, 1, 0), [(0, 3), (0, 2), (1, 3)])),
    (("vinc", (0, 1), (1,), ()), ("biv", (0, 1, 2), (1, 2), (0,))),
    (("perm", (0, 1), None, None), mesh_spec((0, 1, 3, 2), [(2, 2)])),
    (mesh_spec((), [(0, 0)]), mesh_spec((), [(0, 0)])),
    (mesh_spec((0, 1), [(0, 0), (2, 2)]), mesh_spec((1, 0, 3, 2), [(0, 0), (1, 0), (0, 1), (1, 1), (4, 4), (3, 4), (2, 2)])),
]
ABORT_OPS = ("list", "contains", "avoids2", "sub")


def _abort_subsets(k):
    return dedup([I for I in ((), (0,), (k - 1,), (0, k - 1), tuple(range(1, k))) if all(0 <= i < k for i in I)])


def _abort_op(op, q, p):
    if op == "list":
        list(q.occurrences_in(p))
    elif op == "contains":
        p.contains(q)
    elif op == "avoids2":
        p.avoids(q, q)
    elif op == "sub":
        for I in _abort_subsets(len(p)):
            p.sub_mesh_pattern(I)


def abort_case(part, pi, op, warm, k, total_only=False):
    import os
    import signal
    import sys
    from ..core import REPO
    lib = _lib()
    root = os.path.join(os.path.abspath(REPO), "permuta") + os.sep
    qspec, pspec = ABORT_PAIRS[pi]
    # process-wide table: always start from the same (empty) state so that the number of
    # injection points does not depend on what this worker ran before; `warm` refills it
    if hasattr(lib.Perm, "_to_standard"):
        lib.Perm._to_standard.cache_clear()
    q, p = make(qspec), make(pspec)
    if warm:
        list(q.occurrences_in(p))
    hook0 = sys.unraisablehook
    sys.unraisablehook = lambda unraisable: None
    try:
        finished, total = _run_with_abort(lambda: _abort_op(op, q, p), k, root)
    finally:
        sys.unraisablehook = hook0
    if total_only:
        return total
    pp, psh, qsh = pspec[1], spec_shading(pspec), spec_shading(qspec)
    regs = {I: Y.region(pp, psh, I) for I in Y.index_subsets(len(pp))}
    exp = [occ for occ in R.occurrences(qspec[1], pp) if qsh <= regs[occ][1]]
    case = {"q": spec_case(qspec), "p": spec_case(pspec), "op": op, "warm": warm, "abort_at_call": k, "pair": pi}

    def on_alarm(signum, frame):
        raise TimeoutError("read-back did not finish within 20 s")

    old = signal.signal(signal.SIGALRM, on_alarm)
    sys.unraisablehook = lambda unraisable: None
    signal.alarm(20)
    try:
        bad = {}
        got = sorted(q.occurrences_in(p))
        if got != exp:
            bad["same objects: occurrences_in"] = got
        got = sorted(make(qspec).occurrences_in(make(pspec)))
        if got != exp:
            bad["new equal objects: occurrences_in"] = got
        if p.contains(q) is not bool(exp) or p.avoids(q) is not (not exp):
            bad["contains/avoids"] = [p.contains(q), p.avoids(q)]
        for who, obj in (("same object", p), ("new equal object", make(pspec))):
            for I, (sub, reg) in regs.items():
                if who != "same object" and I not in _abort_subsets(len(pp)):
                    continue
                g = result_of_sub(obj, I)
                if g != (sub, reg):
                    bad["%s: sub_mesh_pattern(%r)" % (who, I)] = [g[0], sorted(g[1])]
        if bad:
            part.violation("abort", case, {"wrong_after_abort": bad, "expected_occurrences": exp})
    except TimeoutError as exc:
        part.violation("abort", case, {"hang": str(exc)})
    except Exception as exc:  # noqa
        part.violation("abort", case, {"exception_in_read_back": repr(exc)})
    finally:
        signal.alarm(0)
        signal.signal(signal.SIGALRM, old)
        sys.unraisablehook = hook0
    part.add(1, 0 if finished else 1)
    return total


def shard_abort(shard):
    pi, op, warm, part_i, nparts = shard
    part = Partial()
    total = abort_case(part, pi, op, warm, None, total_only=True)
    for k in range(1 + part_i, total + 1, nparts):
        abort_case(part, pi, op, warm, k)
    if part_i == 0:
        part.bump("abort:injection-points", total)
    return part


def shard_multi(shard):
    """p.contains(q1, q2) / p.avoids(q1, q2) / contained_in / avoided_by with two arguments."""
    qname, pname, lo, hi = shard
    part = Partial()
    qs = _FAM[qname]
    for pspec, p in _FAM[pname][lo:hi]:
        strong = strong_of(pspec)
        c = [bool([o for o in classical(qs_[1], pspec[1]) if spec_shading(qs_) <= strong[o]])
             for qs_, _ in qs]
        for i, j in itertools.product(range(len(qs)), repeat=2):
            exp = (c[i] and c[j], (not c[i]) and (not c[j]))
            case = {"qs": [spec_case(qs[i][0]), spec_case(qs[j][0])], "p": spec_case(pspec)}
            try:
                got = (p.contains(qs[i][1], qs[j][1]), p.avoids(qs[i][1], qs[j][1]))
            except Exception as exc:  # noqa
                part.violation("multi", case, {"exception": repr(exc)})
                continue
            if got != exp:
                part.violation("multi", case, {"expected": list(exp), "got": list(got)})
            part.add(1, 1 if c[i] != c[j] else 0)
            part.bump("multi:argument-lists")
    return part


def shard_multi_targets(shard):
    """q.contained_in(p1, p2) / q.avoided_by(p1, p2): one small pattern against two targets."""
    qname, pname, lo, hi = shard
    part = Partial()
    ps = [(s, o) for s, o in _FAM[pname] if s[0] != "perm"]   # a Perm target is a TEXT (C03), not a pattern
    strongs = [strong_of(ps_) for ps_, _ in ps]
    for qspec, q in _FAM[qname][lo:hi]:
        qsh = spec_shading(qspec)
        c = [bool([o for o in classical(qspec[1], ps_[1]) if qsh <= st[o]])
             for (ps_, _), st in zip(ps, strongs)]
        for i, j in itertools.product(range(len(ps)), repeat=2):
            exp = (c[i] and c[j], (not c[i]) and (not c[j]))
            case = {"q": spec_case(qspec), "ps": [spec_case(ps[i][0]), spec_case(ps[j][0])]}
            try:
                got = (q.contained_in(ps[i][1], ps[j][1]), q.avoided_by(ps[i][1], ps[j][1]))
            except Exception as exc:  # noqa
                part.violation("multi", case, {"exception": repr(exc)})
                continue
            if got != exp:
                part.violation("multi", case, {"expected": list(exp), "got": list(got)})
            part.add(1, 1 if c[i] != c[j] else 0)
            part.bump("multi:argument-lists")
    return part


def shard_selfcheck(shard):
    part = Partial()
    part.bump("oracle_selfcheck_comparisons", Y.selfcheck(*shard))
    return part


# --------------------------------------------------------------------------------------------

def typed_small(maxk):
    """q given through the other classes: classical, bivincular, vincular, covincular."""
    out = []
    for k in range(maxk + 1):
        adjs = list(subsets(range(k + 1)))
        for p in R.perms(k):
            out.append(("perm", p, None, None))
            for ai in adjs:
                for av in adjs:
                    out.append(("biv", p, ai, av))
            for a in adjs:
                out.append(("vinc", p, a, ()))
                out.append(("covinc", p, (), a))
    return out


MULTI_Q = [
    mesh_spec((), [(0, 0)]),
    mesh_spec((0,), []), mesh_spec((0,), [(0, 0)]), mesh_spec((0,), [(0, 1), (1, 1)]),
    mesh_spec((0,), [(0, 0), (0, 1), (1, 0), (1, 1)]),
    mesh_spec((0, 1), [(1, 1)]), mesh_spec((1, 0), [(1, 1)]),
    mesh_spec((0, 1), [(0, 0), (0, 1), (0, 2)]), mesh_spec((1, 0), [(0, 2), (1, 2), (2, 2)]),
    ("perm", (0, 1), None, None), ("vinc", (0, 1), (1,), ()), ("covinc", (1, 0), (), (1,)),
]


def run(ctx, only=None):
    def want(name):
        return only is None or name in only

    quick = ctx.quick
    ctx.rule = ("one evaluation = one (pattern, index subset) for submesh/strongest, one ordered pair "
                "(q, p) for mim/mim3/types, one argument list for multi; each enumerated once.  "
                "Non-trivial: submesh - proper non-empty index subset whose induced pattern is partly "
                "shaded; pairs - q is shaded and occurs in p although p is not fully shaded, or some "
                "classical occurrences are kept and some rejected; multi - one argument contained, "
                "one avoided")
    ctx.assumptions = [
        "references in mc/ref_c06.py: region formulation and semantic formulation (strongest pattern "
        "implied on the chosen points, from reference mesh occurrences in all sigma up to the "
        "horizon); they are asserted equal on every (pattern, subset) explored",
        "horizon for the semantic reference: sigma of length <= 5 for |p| <= 3, |p|+1 for longer p "
        "and for the exhaustive length-3 sweep (|p|+1 is sufficient: restrict sigma to the "
        "occurrence plus the offending point)",
        "sub_mesh_pattern takes a SET of points: the indices in reversed order, as a list or as a one-shot "
        "iterator must give the same pattern (the signature says Iterable[int]; the code sorts them)",
        "a Perm given as the TARGET of contained_in/avoided_by is a text (C03 semantics), so only "
        "mesh-type targets are used here; a Perm given as the smaller pattern q is viewed as unshaded",
        "exactness of occurrences_in(MeshPatt) (not only soundness) is demanded because its docstring "
        "defines it through sub_mesh_pattern, which the property requires to be exact",
    ]
    # ---- families (library objects are built here, before forking) ---------------------
    build_family("M2", fam_all(2), ctx)
    f3_sub = fam_k(3, (0, 1, 2, 14, 15, 16))
    if quick:
        p3 = fam_k(3, (0, 1, 15, 16), lines=(1, 2, 7, 8))
        q2 = dedup(fam_all(1) + fam_k(2, (0, 1, 8, 9)))
        q3 = fam_k(3, (0, 1), biv=False)
        f4 = fam_k(4, (0, 24, 25), biv=False)
    else:
        p3 = fam_k(3, (0, 1, 2, 14, 15, 16))
        q2 = fam_all(2)
        q3 = fam_k(3, (0, 1, 16), biv=False)
        f4 = fam_k(4, (0, 1, 23, 24, 25), biv=False)
    build_family("F3", f3_sub, ctx)
    build_family("P3", p3, ctx)
    build_family("Q2", q2, ctx)
    build_family("Q3", q3, ctx)
    build_family("F4", f4, ctx)
    build_family("T2", typed_small(2), ctx)
    build_family("B2", [s for s in typed_small(2) if s[0] != "perm"], ctx)
    build_family("MQ", MULTI_Q, ctx)
    build_family("M2s", dedup(fam_all(1) + fam_k(2, (0, 1, 2, 7, 8, 9), biv=False)) if quick else fam_all(2), ctx)

    # ---- reference containment masks (for `implies`) ------------------------------------
    L = 5 if quick else 6
    del _SIGMAS[:]
    _SIGMAS.extend(R.perms_upto(L))
    _CMASK.clear()
    if want("mim") or want("mim3") or want("types"):
        shards = []
        for name in ("M2", "P3", "Q3", "T2"):
            n = len(_FAM[name])
            shards += [(name, lo, min(n, lo + 64)) for lo in range(0, n, 64)]
        for lst in ctx.pmap(shard_cmask, shards):
            for spec, m in lst:
                _CMASK[spec] = m
        ctx.section("reference containment masks", patterns=len(_CMASK), sigmas=len(_SIGMAS))

    jobs = []
    if want("selfcheck"):
        jobs.append((shard_selfcheck, (2, 5)))

    if want("submesh"):
        for name, per, forms in (("M2", 40, True), ("F3", 40, True), ("F4", 20, False)):
            n = len(_FAM[name])
            jobs += [(shard_sub, (name, lo, min(n, lo + per), forms)) for lo in range(0, n, per)]
        ctx.bounds["submesh"] = {
            "patterns": "all %d mesh patterns of length <= 2; %d of length 3 (<=2 or >=14 cells, unions of "
                        "full rows/columns, code base); %d of length 4 (%s cells, code base)" % (
                            len(_FAM["M2"]), len(_FAM["F3"]), len(_FAM["F4"]),
                            "0/24/25" if quick else "0/1/23/24/25"),
            "index_subsets": "all",
            "index_forms": "length <= 2 and the length-3 family: " + ", ".join(FORMS),
            "fresh": "length <= 2 and the length-3 family: the returned MeshPatt is edited in place "
                     "(shading complemented, pattern reversed), then the same object and a new equal one are asked again"}
        if not quick:
            step = 1 << 11
            for p in R.perms(3):
                jobs += [(shard_sub_allmask, (p, mlo, mlo + step)) for mlo in range(0, 1 << 16, step)]
            ctx.bounds["submesh_all3"] = "ALL 6*2^16 mesh patterns of length 3 x all 8 index subsets"

    if want("holes"):
        # regions of at least 3 x 3 (2 x 2) boxes need patterns of length >= 5
        small_q = [s for s in fam_all(1) if len(s[2]) <= 1 or len(s[2]) == (len(s[1]) + 1) ** 2]
        build_family("QH", small_q, ctx)
        build_family("QH2only", fam_k(2, (0, 1), biv=False, codebase=False), ctx)
        n5 = len(R.perms(5))
        if quick:
            jobs += [(shard_holes, (5, 3, 0, lo, lo + 1, None, "QH", True)) for lo in range(n5)]
        else:
            jobs += [(shard_holes, (5, 2, 0, lo, lo + 1, None, "QH", True)) for lo in range(n5)]
            jobs += [(shard_holes, (5, 3, 0, lo, min(n5, lo + 4), 2, "QH2only", False)) for lo in range(0, n5, 4)]
            n6 = len(R.perms(6))
            jobs += [(shard_holes, (6, 3, 7, lo, min(n6, lo + 3), 2, None, True)) for lo in range(0, n6, 3)]
        ctx.bounds["holes"] = {
            "patterns": "for every underlying pattern of length 5: every point-free rectangle of boxes with both "
                        "sides >= %d, shaded completely / minus one box (each box in turn) / minus one column / "
                        "minus one row" % (3 if quick else 2)
                        + ("" if quick else "; length 6: the same for rectangles with sides >= 3 and width + "
                                            "height >= 7"),
            "index_subsets": "all 32" + ("" if quick else " (length 6: all subsets of size <= 2; a point-free "
                                                          "3 x 4 region leaves at most one chosen point)"),
            "mimh": "q of length <= 1 with <= 1 or all cells shaded (8) inside every length-5 pattern of the family"
                    + ("" if quick else "; q of length 2 with <= 1 cell (20) inside those with sides >= 3")}

    if want("abort"):
        jobs += [(shard_abort, (pi, op, warm, i, 4)) for pi in range(len(ABORT_PAIRS)) for op in ABORT_OPS
                 for warm in (False, True) for i in range(4)]
        ctx.bounds["abort"] = {"pairs": len(ABORT_PAIRS), "operations": list(ABORT_OPS),
                               "objects": "new (Perm.to_standard cache cleared, memo of the underlying Perm not built) "
                                          "and warm",
                               "injection": "a BaseException at EVERY 'call' event inside permuta/ during the operation "
                                            "(counter abort:injection-points)",
                               "read_back": "occurrences_in on the same and on new equal objects, contains/avoids, "
                                            "sub_mesh_pattern for every index subset on the same object and for (), (0), (k-1), (0,k-1), (1..k-1) "
                                            "on a new equal object; the aborted `sub` operation walks through these five subsets"}

    if want("scale"):
        if "QH" not in _FAM:
            build_family("QH", [s for s in fam_all(1) if len(s[2]) <= 1 or len(s[2]) == (len(s[1]) + 1) ** 2], ctx)
        allforms = tuple(FORMS)
        small = (9, 10, 12) if quick else (9, 10, 11, 12)
        mid = (33, 34) if quick else (31, 32, 33, 34)
        big = () if quick else (257,)
        for n in small:
            jobs += [(shard_scale, (n, pi, 3 if quick else 4, True, allforms)) for pi in range(len(scale_patterns(n)))]
        for n in mid:
            jobs += [(shard_scale, (n, pi, 2, True, allforms[:6])) for pi in range(len(scale_patterns(n)))]
        for n in big:
            jobs += [(shard_scale, (n, pi, 2, False, ("tuple", "iterator", "set"))) for pi in range(4)]
        ctx.bounds["scale"] = {
            "pattern_lengths": list(small) + list(mid) + list(big),
            "underlying_patterns": "q*i mod n (3 multipliers), identity, reverse identity, rotation by n//2, "
                                   "two-block layered",
            "shadings": "empty, diagonal, all boxes, checkerboard, all but the diagonal (lengths >= 255: the first two)",
            "index_sets": "every subset of size <= %s (lengths >= 31: <= 2) of the positions "
                          "{0,1,2,7,8,9,31,32,33,255,256,257,n-2,n-1} below n; the whole probe set and it minus one "
                          "element; even positions; odd positions; all positions; all minus one probe position"
                          % ("3" if quick else "4"),
            "forms": "lengths <= 12: " + ", ".join(allforms) + "; lengths >= 31: " + ", ".join(allforms[:6]),
            "length_257": "thorough only: the three q*i mod n patterns and the identity, forms tuple/iterator/set",
            "mims": "8 small q inside every pattern of length <= 12 of this family"}

    if want("mim"):
        n = len(_FAM["M2"])
        per = 8
        jobs += [(shard_mim, ("mim", "M2", "M2", lo, min(n, lo + per), "some" if quick else "all"))
                 for lo in range(0, n, per)]
        ctx.bounds["mim"] = {"pairs": "all ordered pairs (q, p) of the %d mesh patterns of length <= 2" % n,
                             "derived_observers": "pairs with |q|<=1 or |p|<=1 or <=2 cells in q" if quick else "all pairs",
                             "implies_checked_on": "S<=%d" % L}

    if want("mim3"):
        n = len(_FAM["P3"])
        per = 12 if quick else 4
        jobs += [(shard_mim, ("mim3", "Q2", "P3", lo, min(n, lo + per), "some"))
                 for lo in range(0, n, per)]
        per = 16
        jobs += [(shard_mim, ("mim3", "Q3", "P3", lo, min(n, lo + per), "some"))
                 for lo in range(0, n, per)]
        # a longer pattern never occurs in a shorter one
        n2 = len(_FAM["M2"])
        jobs += [(shard_mim, ("mim3", "Q3", "M2", lo, min(n2, lo + 64), "none"))
                 for lo in range(0, n2, 64)]
        ctx.bounds["mim3"] = {"p": "%d patterns of length 3 (%s, code base)"
                                   % (n, "0/1/15/16 shaded cells, unions of 1, 2, 7 or 8 full rows/columns" if quick
                                      else "0/1/2/14/15/16 shaded cells, all unions of full rows/columns"),
                              "q": "%d patterns of length <= 2 and %d of length 3" % (len(_FAM["Q2"]), len(_FAM["Q3"])),
                              "also": "q of length 3 against all p of length <= 2 (never occurs)"}

    if want("types"):
        n = len(_FAM["M2s"])
        jobs += [(shard_mim, ("types", "T2", "M2s", lo, min(n, lo + 24), "some")) for lo in range(0, n, 24)]
        nb = len(_FAM["B2"])
        jobs += [(shard_mim, ("types", "T2", "B2", lo, min(nb, lo + 24), "all")) for lo in range(0, nb, 24)]
        ctx.bounds["types"] = ("q as Perm / BivincularPatt / VincularPatt / CovincularPatt of length <= 2 "
                               "(%d objects) in %s and in every bivincular-"
                               "class object of length <= 2 (%d)" % (
                                   len(_FAM["T2"]),
                                   "every mesh pattern of length <= 1 and those of length 2 with <=2 or >=7 cells"
                                   if quick else "every mesh pattern of length <= 2", nb))

    if want("multi"):
        n = len(_FAM["M2"])
        jobs += [(shard_multi, ("MQ", "M2", lo, min(n, lo + 32))) for lo in range(0, n, 32)]
        if not quick:
            jobs.append((shard_multi, ("MQ", "P3", 0, len(_FAM["P3"]))))
        jobs.append((shard_multi_targets, ("MQ", "MQ", 0, len(MULTI_Q))))
        ctx.bounds["multi"] = ("all ordered pairs of an %d-pattern pool as arguments of contains/avoids of "
                               "every mesh pattern of length <= 2%s; contained_in/avoided_by with all ordered "
                               "pairs of targets from the pool" % (len(MULTI_Q), "" if quick else " and the length-3 family"))

    del _JOBS[:]
    _JOBS.extend(jobs)
    ctx.pmap(_dispatch, [(i,) for i in range(len(jobs))])
    ctx.section("all", evaluations=ctx.evals, nontrivial=ctx.nontrivial, shards=len(jobs))


_JOBS = []


def _dispatch(shard):
    func, arg = _JOBS[shard[0]]
    return func(arg)


# --------------------------------------------------------------------------------------------

def replay(ctx, rec):
    sub, case = rec["sub"], rec["case"]
    if sub in ("submesh", "strongest", "scale", "scale_strongest"):
        c = dict(case)
        I = tuple(c.pop("indices"))
        form = c.pop("form", None)
        spec = case_spec(c)
        patt, sh = spec[1], frozenset(spec[2])
        subp, reg = Y.region(patt, sh, I)
        if len(patt) <= 6:
            sem = Y.strongest_naive(patt, sh, I, len(patt) + 1)
        else:
            sem = Y.strongest_by_insertion(patt, sh, I)
        arg = FORMS[form](I) if form in FORMS else I
        try:
            got = result_of_sub(make(spec), arg)
        except Exception as exc:  # noqa
            ctx.violation(sub, case, {"exception": repr(exc)})
            return
        want_sh = reg if sub in ("submesh", "scale") else sem
        if got != (subp, want_sh):
            ctx.violation(sub, case, {"expected": [subp, sorted(want_sh)], "got": [got[0], sorted(got[1])]})
    elif sub == "abort":
        abort_case(ctx, case["pair"], case["op"], case["warm"], case["abort_at_call"])
    elif sub == "fresh":
        c = dict(case)
        I = tuple(c.pop("indices"))
        c.pop("form", None)
        spec = case_spec(c)
        subp, reg = Y.region(spec[1], frozenset(spec[2]), I)
        bad = fresh_sub(spec, make(spec), I, subp, reg)
        if bad:
            ctx.violation("fresh", case, bad)
    elif sub == "construct":
        try:
            make(case_spec(case))
        except Exception as exc:  # noqa
            ctx.violation("construct", case, {"exception": repr(exc)})
    elif sub == "multi":
        def expected(qspec, pspec):
            st = {I: Y.strongest_naive(pspec[1], spec_shading(pspec), I, len(pspec[1]) + 1)
                  for I in R.occurrences(qspec[1], pspec[1])}
            return any(spec_shading(qspec) <= s for s in st.values())
        try:
            if "qs" in case:
                qs = [case_spec(c) for c in case["qs"]]
                ps = case_spec(case["p"])
                c = [expected(q, ps) for q in qs]
                p = make(ps)
                args = [make(q) for q in qs]
                got = (p.contains(*args), p.avoids(*args))
            else:
                q = case_spec(case["q"])
                pss = [case_spec(c) for c in case["ps"]]
                c = [expected(q, ps) for ps in pss]
                args = [make(ps) for ps in pss]
                got = (make(q).contained_in(*args), make(q).avoided_by(*args))
        except Exception as exc:  # noqa
            ctx.violation("multi", case, {"exception": repr(exc)})
            return
        if got != (all(c), not any(c)):
            ctx.violation("multi", case, {"expected": [all(c), not any(c)], "got": list(got)})
    else:
        # pair sub-checks: mim_*, mim3_*, types_*, implies, derived
        qspec, pspec = case_spec(case["q"]), case_spec(case["p"])
        try:
            q, p = make(qspec), make(pspec)
        except Exception as exc:  # noqa
            ctx.violation("construct", case, {"exception": repr(exc)})
            return
        pp, psh = pspec[1], spec_shading(pspec)
        if len(pp) <= 6:
            strong = {I: Y.strongest_naive(pp, psh, I, len(pp) + 1) for I in R.occurrences(qspec[1], pp)}
        else:
            strong = {I: Y.strongest_by_insertion(pp, psh, I) for I in R.occurrences(qspec[1], pp)}
        if not _SIGMAS:
            _SIGMAS.extend(R.perms_upto(5))
        for s in (qspec, pspec):
            m = 0
            for bit, sigma in enumerate(_SIGMAS):
                if R.mesh_contains(sigma, s[1], spec_shading(s)):
                    m |= 1 << bit
            _CMASK[s] = m
        base = sub.split("_")[0] if sub.split("_")[0] in ("mim", "mim3", "mimh", "mims", "types") else "mim"
        check_mim(ctx, qspec, q, pspec, p, strong, True, base)
