"""C10 - algebraic and structural operations of Perm return valid permutations obeying their laws.

E1 (bounded exhaustive enumeration against mc/ref_c10.py, the definitions on point sets):

  unary    every perm of S<=N: sum/skew decomposition (+ re-assembly, indecomposable parts,
           is_*_decomposable), block_decomposition (= all proper intervals by brute force),
           block_decomposition_as_pattern, maximum_block, is_simple, is_strongly_simple, the three
           monotone block decompositions (with and without singletons), the three contractions and
           monotone_quotient, children (= shadow), coveredby (= {q : p is obtained from q by
           deleting one point}, from a table built over S_{n+1}), remove / remove_element for
           every index / value and their defaults, remove-then-insert; every list-returning
           operation is called a second time after the first result was emptied by the caller.
  inflations  block-structured permutations beyond the exhaustive range: every inflation of 01, 10
           and the simples of length 4, 5 with at most two non-trivial components from a fixed
           alphabet (perms <= 3, simples 4..6, monotone 4..6), total length <= 10 (quick) / 13;
           the window-scanning observers (decomp, blocks, mono groups) against brute force.
  long     (thorough) every permutation of length 9, blocks group.
  scale    structured permutations (identity, reverse, k*i mod n, rotations, one transposition,
           layered, 2413 (+) identity, 2413[identity], q-then-decreasing) at lengths straddling
           runtime thresholds (12, 31..34, 255..259, 300; thorough also 9..11, 63..65, 127..129,
           511..513): every unary observer with polynomial references; on the core shapes every
           operation that takes an index / value / amount, arguments within 1 of 0, 8, 32, 256, 257,
           n-1, n, n+1 handed over as freshly made ints, plus defaults.
  receivers  FORMS of the receiver: every perm of S<=5 (6) obtained along 11 public routes (list,
           iterator, Perm(Perm), the memoised to_standard object, from_string, one_based, validated,
           results of inverse / compose / insert-remove), all unary observers.
  abort    an exception raised at every 'call' event inside 12 structural operations and inflate
           (one per execution), then all scan observers read back on the same object, a new equal
           object and the memoised to_standard object.
  duality  every q: q is in coveredby(c) for each child c of q and in children(r) for each r in
           coveredby(q) (implementation against itself).
  insert   every (p, index, value) with 0 <= index <= n+1, 0 <= value <= n, defaults included;
           remove(index) and remove_element(value) undo it.
  shift    every p x every a (and every pair (a, b)) in a symmetric range: the four shifts against
           the point-set definition, Z-action laws, left/right and up/down are mutually inverse,
           horizontal and vertical shifts commute.
  compose  all pairs (and all triples) of equal length: definition, identity, inverse,
           (pq)^-1 = q^-1 p^-1, associativity, variadic form.
  sums     all pairs / triples / quadruples of components (empty ones included): direct and skew
           sum against the point configuration, variadic = nested.
  inflate  every p x every component list over a fixed alphabet containing None and the empty perm.
"""
from __future__ import annotations

import itertools
import math

from .. import ref_c10 as X
from ..core import Partial, jsonable

PROPERTY = "C10"
LEVEL = "exploration"


def _P():
    from permuta import Perm
    return Perm


def level_slice(n, lo, hi):
    return list(itertools.islice(itertools.permutations(range(n)), lo, hi))


def chunks(n, per):
    total = math.factorial(n)
    return [(lo, min(total, lo + per)) for lo in range(0, total, per)]


# --------------------------------------------------------------------------------------------
# converting what the library returns into plain comparable data
# --------------------------------------------------------------------------------------------

class Conv:
    def __init__(self, Perm):
        self.Perm = Perm

    def p(self, x):
        """A returned permutation: must be a Perm; compared as a tuple."""
        if not isinstance(x, self.Perm):
            return {"not_a_Perm": repr(x)}
        return tuple(x)

    def plist(self, xs):
        return [self.p(x) for x in xs]

    def pset(self, xs):
        """A returned collection of distinct permutations (order is not part of the contract)."""
        lst = [self.p(x) for x in xs]
        if any(isinstance(x, dict) for x in lst):
            return lst
        if len(set(lst)) != len(lst):
            return {"duplicates": sorted(lst)}
        return sorted(lst)


class Pred:
    """An expectation that is a predicate rather than a value."""

    def __init__(self, fn, desc):
        self.fn, self.desc = fn, desc

    def ok(self, got):
        return self.fn(got)


class Collect:
    """A Partial-like sink without caps (used by replay)."""

    def __init__(self):
        self.viols = []

    def violation(self, sub, case, detail=None, sig=None):
        self.viols.append({"sub": sub, "case": jsonable(case), "detail": jsonable(detail),
                           "sig": sig})

    def add(self, *a, **k):
        pass

    def bump(self, *a, **k):
        pass

    def sample(self, *a, **k):
        pass


def observe(part, sub, case, thunk, exp):
    """Run one call on the implementation, compare, report.  Returns True iff it agreed."""
    try:
        got = thunk()
    except Exception as exc:  # noqa  (README rule 6: an exception is an observation)
        part.violation(sub, case, {"exception": repr(exc)})
        return False
    if isinstance(exp, Pred):
        if not exp.ok(got):
            part.violation(sub, case, {"expected": exp.desc, "got": got})
            return False
        return True
    if got != exp:
        part.violation(sub, case, {"expected": exp, "got": got})
        return False
    return True


# --------------------------------------------------------------------------------------------
# unary: one permutation, all structural observers
# --------------------------------------------------------------------------------------------

STEPS = {"": (1, -1), "_ascending": (1,), "_descending": (-1,)}
LIST_OPS = ("sum_decomposition", "skew_decomposition", "block_decomposition",
            "block_decomposition_as_pattern", "children", "coveredby")


LIST_NORM = {
    "sum_decomposition": lambda C, P: C.plist(P.sum_decomposition()),
    "skew_decomposition": lambda C, P: C.plist(P.skew_decomposition()),
    "block_decomposition": lambda C, P: [sorted(b) for b in P.block_decomposition()],
    "block_decomposition_as_pattern": lambda C, P: C.pset(P.block_decomposition_as_pattern()),
    "children": lambda C, P: C.pset(P.children()),
    "coveredby": lambda C, P: C.pset(P.coveredby()),
}


def _empty_out(res):
    """What a careless caller may do to a returned list."""
    if isinstance(res, list):
        for inner in res:
            if isinstance(inner, list):
                inner.clear()
        res.clear()


def _scramble(res):
    """Another one: reverse it and append a sentinel, at every nesting level."""
    if isinstance(res, list):
        for inner in res:
            if isinstance(inner, list):
                inner.reverse()
                inner.append(-7)
        res.reverse()
        res.append([-7])


DAMAGES = (_empty_out, _scramble)
FRESH_ALIASES = {"block_decomposition": ("all_intervals", "decomposition"),
                 "children": ("shrink_by_one",)}
FRESH_DEPENDENTS = {
    "block_decomposition": ("block_decomposition_as_pattern", "maximum_block", "simple_location",
                            "is_simple", "is_strongly_simple"),
    "children": ("is_strongly_simple",),
    "sum_decomposition": ("is_sum_decomposable", "sum_decomposition:parts_indecomposable"),
    "skew_decomposition": ("is_skew_decomposable", "skew_decomposition:parts_indecomposable"),
}


FRESH_MAX = 6     # the second-call observations are made for permutations up to this length


SCAN_GROUPS = ("decomp", "blocks", "mono")     # the observers that scan windows of the permutation


def fresh_int(k):
    """An int equal to k that is NOT the object stored in any tuple (CPython shares only the
    ints -5..256)."""
    return int(str(k))


AS_PATTERN_MAX = 3000    # long perms: block_decomposition_as_pattern only below this many blocks
STRONG_MAX = 40          # long SIMPLE perms: is_strongly_simple only up to this length


def unary_observations(Perm, p, cover, full=True, groups=None, big=None, receiver=None):
    """[(sub, op, thunk, expected)] for one permutation p (a tuple).  cover: set of the perms of
    length n+1 covering p, or None when the table is not available for this length.
    full=False leaves out the removal family (n ... 3n calls, explored by `insert` as well).
    big: None, or {"positions": [...]} for a long permutation: polynomial references
    (X.intervals_minmax, X.monotone_runs_linear), removal family only at the given positions /
    values, the two quadratic-per-block observers only within AS_PATTERN_MAX / STRONG_MAX.
    receiver: the Perm object to call the methods on (default: a new Perm(p))."""
    C = Conv(Perm)
    n = len(p)
    P = Perm(p) if receiver is None else receiver
    assert tuple(P) == tuple(p)
    out = []
    if groups is None:
        add = lambda sub, op, thunk, exp: out.append((sub, op, thunk, exp))  # noqa
    else:
        add = lambda sub, op, thunk, exp: (out.append((sub, op, thunk, exp))  # noqa
                                           if sub in groups else None)

    # ---- sum / skew decomposition ------------------------------------------------------
    for kind, sumop, refdec, refflag in (
            ("sum", "direct_sum", X.sum_decomposition(p), X.is_sum_decomposable(p)),
            ("skew", "skew_sum", X.skew_decomposition(p), X.is_skew_decomposable(p))):
        dec = kind + "_decomposition"
        flag = "is_%s_decomposable" % kind
        add("decomp", dec, lambda dec=dec: C.plist(getattr(P, dec)()), refdec)
        add("decomp", flag, lambda flag=flag: getattr(P, flag)(), refflag)
        add("decomp", kind + "_decomposable",
            lambda kind=kind: getattr(P, kind + "_decomposable")(), refflag)

        def reassemble(dec=dec, sumop=sumop):
            parts = list(getattr(P, dec)())
            if not parts:
                return ()
            return C.p(getattr(parts[0], sumop)(*parts[1:]))
        add("decomp", dec + ":reassemble", reassemble, p)

        def parts_indecomposable(dec=dec, flag=flag):
            return [bool(getattr(c, flag)()) for c in getattr(P, dec)()]
        add("decomp", dec + ":parts_indecomposable", parts_indecomposable, [False] * len(refdec))

    # ---- intervals ---------------------------------------------------------------------
    iv = X.intervals_minmax(p) if big else X.intervals(p)
    add("blocks", "block_decomposition",
        lambda: [sorted(b) for b in P.block_decomposition()],
        [iv.get(length, []) for length in range(n)])
    if not big or sum(len(ss) for ss in iv.values()) <= AS_PATTERN_MAX:
        add("blocks", "block_decomposition_as_pattern",
            lambda: C.pset(P.block_decomposition_as_pattern()),
            sorted({X.ranks(p[s:s + length]) for length, ss in iv.items() for s in ss}))
    if iv:
        top = max(iv)
        exp_max = Pred(lambda g: len(g) == 2 and g[0] == top and g[1] in iv[top],
                       "(%d, one of %r)" % (top, iv[top]))
    else:
        exp_max = (0, 0)
    add("blocks", "maximum_block", lambda: tuple(P.maximum_block()), exp_max)
    add("blocks", "simple_location", lambda: tuple(P.simple_location()), exp_max)
    add("blocks", "is_simple", lambda: P.is_simple(), not iv)
    if not big:
        add("blocks", "is_strongly_simple", lambda: P.is_strongly_simple(), X.is_strongly_simple(p))
    elif iv:
        add("blocks", "is_strongly_simple", lambda: P.is_strongly_simple(), False)
    elif n <= STRONG_MAX:
        add("blocks", "is_strongly_simple", lambda: P.is_strongly_simple(),
            all(not X.intervals_minmax(c) for c in X.children(p)))

    # ---- monotone blocks, contractions ---------------------------------------------------
    for suffix, steps in STEPS.items():
        name = "monotone_block_decomposition" + suffix
        runs = (X.monotone_runs_linear if big else X.monotone_runs)(p, steps, False)
        for ones, exp in ((False, runs), (True, X.with_singletons(n, runs))):
            add("mono", "%s(%s)" % (name, ones),
                lambda name=name, ones=ones: [tuple(b) for b in getattr(P, name)(ones)], exp)
        add("mono", name + "()", lambda name=name: [tuple(b) for b in getattr(P, name)()], runs)
        add("mono", name + "(with_ones=True)",
            lambda name=name: [tuple(b) for b in getattr(P, name)(with_ones=True)],
            X.with_singletons(n, runs))
    add("mono", "contract_inc_bonds", lambda: C.p(P.contract_inc_bonds()), X.contract(p, (1,)))
    add("mono", "contract_dec_bonds", lambda: C.p(P.contract_dec_bonds()), X.contract(p, (-1,)))
    add("mono", "contract_bonds", lambda: C.p(P.contract_bonds()), X.contract(p, (1, -1)))
    add("mono", "monotone_quotient", lambda: C.p(P.monotone_quotient()), X.contract(p, (1, -1)))

    # ---- shadow, covers ------------------------------------------------------------------
    add("children", "children", lambda: C.pset(P.children()), sorted(X.children(p)))
    add("children", "shrink_by_one", lambda: C.pset(P.shrink_by_one()), sorted(X.children(p)))
    if cover is not None:
        add("covers", "coveredby", lambda: C.pset(P.coveredby()), sorted(cover))

    # ---- removal ---------------------------------------------------------------------------
    for i in ((range(n) if not big else big["positions"]) if full else ()):
        add("remove", "remove(%d)" % i, lambda i=i: C.p(P.remove(fresh_int(i))), X.remove_at(p, i))
        add("remove", "remove_element(%d)" % i, lambda i=i: C.p(P.remove_element(fresh_int(i))),
            X.remove_value(p, i))
        add("remove", "remove(index=%d)" % i, lambda i=i: C.p(P.remove(index=fresh_int(i))),
            X.remove_at(p, i))
        add("remove", "remove_element(selected=%d)" % i,
            lambda i=i: C.p(P.remove_element(selected=fresh_int(i))), X.remove_value(p, i))
        add("remove", "remove(%d).insert(%d,%d)" % (i, i, p[i]),
            lambda i=i: C.p(P.remove(fresh_int(i)).insert(fresh_int(i), fresh_int(p[i]))), p)
    top_removed = X.remove_value(p, n - 1) if n else ()
    add("remove", "remove()", lambda: C.p(P.remove()), top_removed)
    add("remove", "remove_element()", lambda: C.p(P.remove_element()), top_removed)

    # ---- results belong to the caller: after the returned container was damaged in place (every
    #      nesting level; emptied, then reversed with a sentinel appended), the same question and
    #      the observers that could share a memo with it are asked again - on the same object, on a
    #      new equal object and through the aliases - and must still give the reference answer ---
    expected = {o: e for (_, o, _, e) in out}
    by_op = {o: (t, e) for (_, o, t, e) in out}
    for op in LIST_OPS:
        if op not in expected or n > FRESH_MAX:
            continue

        def again(op=op):
            norm = LIST_NORM[op]
            res = []
            for damage in DAMAGES:
                damage(getattr(P, op)())
                P2 = Perm(p)
                res.append([norm(C, P), norm(C, P2)])
                for alias in FRESH_ALIASES.get(op, ()):
                    a = getattr(P, alias)()
                    res.append([sorted(b) for b in a] if op == "block_decomposition"
                               else C.pset(a))
                    damage(a)
                damage(getattr(P2, op)())
                res.append(norm(C, Perm(p)))
            return res
        per_damage = [[expected[op]] * 2] + [expected[op]] * len(FRESH_ALIASES.get(op, ())) + \
            [expected[op]]
        add("fresh", op + ":second_call", again, per_damage * len(DAMAGES))
        for dep in FRESH_DEPENDENTS.get(op, ()):
            if dep not in by_op:
                continue
            thunk, exp = by_op[dep]

            def dependent(op=op, thunk=thunk):
                DAMAGES[1](getattr(P, op)())
                DAMAGES[0](getattr(P, op)())
                return thunk()
            add("fresh", "%s after %s was damaged" % (dep, op), dependent, exp)
    return out


def check_unary(part, Perm, p, cover, after=None, full=True, groups=None, big=None, case0=None,
                receiver=None, sub_as=None):
    if case0 is None:
        case0 = {"perm": p, "after": after}
    bad = 0
    obs = unary_observations(Perm, p, cover, full, groups, big, receiver)
    if sub_as is not None:
        obs = [(sub_as, op, thunk, exp) for (_, op, thunk, exp) in obs]
    for sub, op, thunk, exp in obs:
        case = dict(case0, op=op)
        if not observe(part, sub, case, thunk, exp):
            bad += 1
    part.bump("unary_observations", len(obs))
    return bad


def unary_nontrivial(p):
    """length >= 3 and not monotone (the interval / bond scans then have both hits and misses)."""
    n = len(p)
    if n < 3:
        return 0
    mono = all(p[i + 1] - p[i] == 1 for i in range(n - 1)) or \
        all(p[i + 1] - p[i] == -1 for i in range(n - 1))
    return 0 if mono else 1


_COVER = {}      # n -> cover table, built in the parent before forking


def shard_unary(shard):
    n, lo, hi, full = shard
    Perm = _P()
    part = Partial()
    table = _COVER.get(n)
    prev = None
    for p in level_slice(n, lo, hi):
        cover = table[p] if table is not None else None
        check_unary(part, Perm, p, cover, after=prev, full=full)
        part.add(1, unary_nontrivial(p))
        iv = X.intervals(p)
        if not iv and n >= 4:
            part.bump("unary_simple_perms")
        part.outcomes.add((n, len(X.sum_cuts(p)), len(X.skew_cuts(p)), max(iv) if iv else 0,
                           len(X.monotone_runs(p, (1, -1), False))))
        if table is not None:
            part.bump("covers_checked")
        prev = p
    if lo == 0 and n >= 5:
        q = level_slice(n, 7, 8)[0]
        part.sample({"sub": "unary", "perm": q, "sum_decomposition": X.sum_decomposition(q),
                     "blocks": X.block_table(q), "monotone_runs": X.monotone_runs(q, (1, -1), True),
                     "children": sorted(X.children(q))}, cap=1)
    return part


# --------------------------------------------------------------------------------------------
# block-structured permutations beyond the exhaustive range: inflations of small skeletons
# --------------------------------------------------------------------------------------------

def inflation_family(maxlen):
    """Every inflation sigma[a_1..a_k] of total length <= maxlen where sigma is 01, 10 or a simple
    permutation of length 4 or 5, at most two a_i are not a single point, and those are taken
    from: all permutations of length 2 and 3, the simple permutations of length 4..6, the
    increasing and the decreasing permutation of length 4..6; when only ONE a_i is not a point it
    may also be a simple permutation of length 7 or a monotone one of length 7 or 8.  Returned as
    a duplicate-free list sorted by (length, permutation)."""
    skeletons = [(0, 1), (1, 0)] + X.simples(4) + X.simples(5)
    comps = [p for k in (2, 3) for p in itertools.permutations(range(k))]
    for k in (4, 5, 6):
        comps += X.simples(k) + [tuple(range(k)), tuple(range(k - 1, -1, -1))]
    single = comps + X.simples(7) + [tuple(range(k)) for k in (7, 8)] + \
        [tuple(range(k - 1, -1, -1)) for k in (7, 8)]
    out = set()
    for s in skeletons:
        k = len(s)
        for r in (0, 1, 2):
            for pos in itertools.combinations(range(k), r):
                for cs in itertools.product(single if r == 1 else comps, repeat=r):
                    if k - r + sum(len(a) for a in cs) > maxlen:
                        continue
                    lst = [None] * k
                    for i, a in zip(pos, cs):
                        lst[i] = a
                    out.add(X.inflate(s, lst))
    return sorted(out, key=lambda p: (len(p), p)), len(skeletons), (len(comps), len(single))


_FAMILY = []     # filled in the parent before forking


def structured_class(p, iv):
    """Measured description of a family member: (indecomposable, every proper interval is longer
    than half of the permutation)."""
    n = len(p)
    indec = not X.sum_cuts(p) and not X.skew_cuts(p)
    return indec, bool(iv) and min(iv) > n // 2


def shard_inflations(shard):
    lo, hi = shard
    Perm = _P()
    part = Partial()
    for p in _FAMILY[lo:hi]:
        check_unary(part, Perm, p, None, after=None, groups=SCAN_GROUPS)
        part.add(1, 1 if len(p) >= 9 else 0)
        iv = X.intervals(p)
        indec, only_long = structured_class(p, iv)
        if indec and only_long:
            part.bump("inflations_indecomposable_all_intervals_longer_than_half")
        if not iv:
            part.bump("inflations_simple")
        part.outcomes.add(("infl", len(p), indec, max(iv) if iv else 0, min(iv) if iv else 0))
    if lo == 0 and _FAMILY:
        q = _FAMILY[len(_FAMILY) // 2]
        part.sample({"sub": "inflations", "perm": q, "blocks": X.block_table(q),
                     "sum_decomposition": X.sum_decomposition(q)}, cap=1)
    return part


def shard_long(shard):
    """All permutations of one length, window-scanning interval observers only."""
    n, lo, hi = shard
    Perm = _P()
    part = Partial()
    for p in level_slice(n, lo, hi):
        check_unary(part, Perm, p, None, after=None, groups=("blocks",))
        part.add(1, unary_nontrivial(p))
    return part


# --------------------------------------------------------------------------------------------
# scale: structured long permutations at lengths that straddle runtime thresholds (set-table
# sizes 8 / 32, the small-int cache 256 / 257), arguments around the same thresholds handed over
# as freshly made ints, same oracles (polynomial variants of the references for the scans)
# --------------------------------------------------------------------------------------------

THRESHOLDS = (0, 8, 32, 256, 257)


def window(hi, centres, width=1):
    """Every k in 0..hi within `width` of one of the centres."""
    return sorted({k for c in centres for k in range(c - width, c + width + 1) if 0 <= k <= hi})


def build_shape(desc):
    name, n, a = desc
    if name == "id":
        return tuple(range(n))
    if name == "rev":
        return tuple(range(n - 1, -1, -1))
    if name == "swap":              # identity with the adjacent transposition (a, a+1)
        lst = list(range(n))
        lst[a], lst[a + 1] = lst[a + 1], lst[a]
        return tuple(lst)
    if name == "mult":              # i -> a * i mod n, gcd(a, n) = 1
        assert math.gcd(a, n) == 1
        return tuple(a * i % n for i in range(n))
    if name == "rot":               # i -> i + a mod n
        return tuple((i + a) % n for i in range(n))
    if name == "layered":           # direct sum of decreasing blocks of size a (last one shorter)
        out = []
        for lo in range(0, n, a):
            out.extend(range(min(n, lo + a) - 1, lo - 1, -1))
        return tuple(out)
    if name == "2413+id":
        return (1, 3, 0, 2) + tuple(range(4, n))
    if name == "2413-dec":
        return tuple(v + n - 4 for v in (1, 3, 0, 2)) + tuple(range(n - 5, -1, -1))
    if name == "qdec":              # first value a, then everything else decreasing
        return (a,) + tuple(v for v in range(n - 1, -1, -1) if v != a)
    if name == "2413[id]":          # the simple 2413 with its first point inflated by an identity
        return X.inflate((1, 3, 0, 2), [tuple(range(n - 3)), None, None, None])
    raise ValueError(desc)


def scale_shapes(n):
    """(descriptor, core?) for one length; core shapes also get the argument-taking operations."""
    mults = [k for k in (2, 3, 5, 7, 11) if math.gcd(k, n) == 1][:3]
    out = [(("id", n, 0), True), (("rev", n, 0), True)]
    out += [(("mult", n, k), i == 0) for i, k in enumerate(mults)]
    out += [(("rot", n, r), r == 1) for r in sorted({1, 2, n // 2, n - 1})]
    out += [(("swap", n, j), j == min(256, n - 2)) for j in window(n - 2, THRESHOLDS + (n - 2,), 0)]
    out += [(("layered", n, s), False) for s in (2, 3)]
    out += [(("2413+id", n, 0), False), (("2413-dec", n, 0), False), (("2413[id]", n, 0), True)]
    out += [(("qdec", n, q), q == min(257, n - 1)) for q in window(n - 1, THRESHOLDS + (n - 1,), 0)]
    return out


def check_scale(part, Perm, desc, core):
    C = Conv(Perm)
    desc = tuple(desc)
    p = build_shape(desc)
    assert X.is_perm(p), desc
    n = len(p)
    P = Perm(p)
    case0 = {"shape": list(desc)}
    count = [0]

    def ob(sub, op, thunk, exp):
        count[0] += 1
        return observe(part, sub, dict(case0, op=op), thunk, exp)

    # ---- every unary observer (polynomial references) ---------------------------------------
    pos = window(n - 1, THRESHOLDS + (n - 1,), 1)
    cover = None
    if n <= 34:      # covers by construction: every one-point insertion of the point-set definition
        cover = {X.insert(p, i, v) for i in range(n + 1) for v in range(n + 1)}
    before = part.counters.get("unary_observations", 0) if hasattr(part, "counters") else 0
    check_unary(part, Perm, p, cover, big={"positions": pos}, case0=case0)
    if hasattr(part, "counters"):
        count[0] += part.counters.get("unary_observations", 0) - before
    if not core:
        part.add(count[0], count[0] if n >= 258 else 0)
        return

    # ---- insert / remove round trips around the thresholds ------------------------------------
    check_insert(part, Perm, p, indices=window(n + 1, THRESHOLDS + (n - 1, n, n + 1), 1),
                 values=window(n, THRESHOLDS + (n - 1, n), 1), case0=case0)

    # ---- shifts ---------------------------------------------------------------------------------
    cent = THRESHOLDS + (n - 1, n, n + 1)
    amounts = sorted({s * k for c in cent for k in range(c - 1, c + 2) for s in (1, -1)})
    pairs = sorted({1, -1, 257, -257, n - 1, n + 1} & set(amounts))
    check_shift(part, Perm, p, 0, amounts=amounts, pair_amounts=pairs, case0=case0)

    # ---- composition with structured partners of the same length --------------------------------
    partners = [("id", n, 0), ("rev", n, 0), ("rot", n, 1), ("inverse-of-self", n, 0)]
    k = next(k for k in (2, 3, 5, 7, 11) if math.gcd(k, n) == 1)
    partners.append(("mult", n, k))
    built = {}
    for d in partners:
        built[d] = X.inverse(p) if d[0] == "inverse-of-self" else build_shape(d)
    for d in partners:
        q = built[d]
        Q = Perm(q)
        exp = X.compose(p, q)
        ob("compose", "compose(%s %s)" % (d[0], d[2]), lambda: C.p(P.compose(Q)), exp)
        ob("compose", "(p*%s %s)^-1" % (d[0], d[2]),
           lambda: [C.p(P.compose(Q).inverse()), C.p(Q.inverse().compose(P.inverse()))],
           [X.inverse(exp)] * 2)
    q, r = built[("rev", n, 0)], built[("mult", n, k)]
    ob("compose", "associativity(rev, mult %d)" % k,
       lambda: [C.p(P.compose(Perm(q)).compose(Perm(r))), C.p(P.compose(Perm(q).compose(Perm(r)))),
                C.p(P.compose(Perm(q), Perm(r)))], [X.compose(p, q, r)] * 3)

    # ---- sums -----------------------------------------------------------------------------------
    small = (1, 0)
    for name, comps in (("p,10", (p, small)), ("10,p", (small, p)), ("p,p", (p, p)),
                        ("10,p,e,10", (small, p, (), small)), ("e,p", ((), p))):
        cs = [Perm(x) for x in comps]
        for op, ref in (("direct_sum", X.direct_sum), ("skew_sum", X.skew_sum)):
            ob("sums", "%s(%s)" % (op, name), lambda op=op: C.p(getattr(cs[0], op)(*cs[1:])),
               ref(*comps))

    # ---- inflation --------------------------------------------------------------------------------
    ob("inflate", "inflate(all None)", lambda: C.p(P.inflate([None] * n)), p)
    for j in pos:
        for a in ((), (1, 0), (0, 2, 1)):
            comps = [None] * n
            comps[j] = a
            ob("inflate", "inflate(None.. except [%d]=%r)" % (j, a),
               lambda: C.p(P.inflate(iter([None if x is None else Perm(x) for x in comps]))),
               X.inflate(p, comps))
    ob("inflate", "10.inflate([p, p])", lambda: C.p(Perm((1, 0)).inflate([P, P])),
       X.inflate((1, 0), [p, p]))
    ident = tuple(range(n))
    ob("inflate", "2413.inflate([p, None, e, id])",
       lambda: C.p(Perm((1, 3, 0, 2)).inflate([P, None, Perm(()), Perm(ident)])),
       X.inflate((1, 3, 0, 2), [p, None, (), ident]))
    part.add(count[0], count[0] if n >= 258 else 0)


def shard_scale(shard):
    desc, core = shard
    Perm = _P()
    part = Partial()
    check_scale(part, Perm, desc, core)
    part.bump("scale_shapes")
    if desc[0] == "mult" and desc[1] == 258 and core:
        p = build_shape(desc)
        part.sample({"sub": "scale", "shape": list(desc), "first_values": p[:8],
                     "remove_element(257)[:8]": X.remove_value(p, 257)[:8],
                     "number_of_intervals": sum(len(v) for v in X.intervals_minmax(p).values())},
                    cap=1)
    return part


# --------------------------------------------------------------------------------------------
# FORMS of the receiver: the same permutation obtained along every public route
# --------------------------------------------------------------------------------------------

RECEIVER_FORMS = ("Perm(list)", "Perm(iterator)", "Perm(Perm)", "Perm.to_standard(2v+1)",
                  "Perm.to_standard(same key again)", "Perm.from_string", "Perm.one_based",
                  "Perm.from_iterable_validated", "inverse().inverse()", "identity.compose(p)",
                  "insert().remove()")


def make_receiver(form, Perm, p):
    n = len(p)
    if form == "Perm(list)":
        return Perm(list(p))
    if form == "Perm(iterator)":
        return Perm(v for v in p)
    if form == "Perm(Perm)":
        return Perm(Perm(p))
    if form.startswith("Perm.to_standard"):        # a memoised object shared by all callers
        return Perm.to_standard([2 * v + 1 for v in p])
    if form == "Perm.from_string":
        return Perm.from_string("".join(str(v) for v in p))
    if form == "Perm.one_based":
        return Perm.one_based([v + 1 for v in p])
    if form == "Perm.from_iterable_validated":
        return Perm.from_iterable_validated(list(p))
    if form == "inverse().inverse()":
        return Perm(p).inverse().inverse()
    if form == "identity.compose(p)":
        return Perm.identity(n).compose(Perm(p))
    if form == "insert().remove()":
        return Perm(p).insert().remove()
    raise ValueError(form)


def check_receivers(part, Perm, p):
    for form in RECEIVER_FORMS:
        case0 = {"perm": p, "receiver": form}
        try:
            recv = make_receiver(form, Perm, p)
            if not isinstance(recv, Perm) or tuple(recv) != tuple(p):
                raise ValueError("route gives %r" % (recv,))
        except Exception as exc:  # noqa
            part.violation("forms", dict(case0, op="build"), {"exception": repr(exc)})
            continue
        before = part.counters.get("unary_observations", 0) if hasattr(part, "counters") else 0
        check_unary(part, Perm, p, None, case0=case0, receiver=recv)
        if hasattr(part, "counters"):
            k = part.counters.get("unary_observations", 0) - before
            part.add(k, k if unary_nontrivial(p) else 0)


def shard_receivers(shard):
    n, lo, hi = shard
    Perm = _P()
    part = Partial()
    for p in level_slice(n, lo, hi):
        check_receivers(part, Perm, p)
    return part


# --------------------------------------------------------------------------------------------
# ABORT: a BaseException raised at the k-th call event inside an operation (every k), then read
# back on the same object, on a new equal object and on the memoised to_standard object
# --------------------------------------------------------------------------------------------

class _Abort(BaseException):
    pass


def _run_with_abort(fn, k, root):
    """Run fn(); raise _Abort at the k-th 'call' event of a frame whose code lives under root
    (k=None: never).  Returns (finished?, number of such events seen)."""
    import sys
    seen = [0]

    def tracer(frame, event, arg):
        if event == "call" and frame.f_code.co_filename.startswith(root):
            seen[0] += 1
            if seen[0] == k:
                sys.settrace(None)
                raise _Abort()
        return None

    sys.settrace(tracer)
    try:
        fn()
        return True, seen[0]
    except _Abort:
        return False, seen[0]
    finally:
        sys.settrace(None)


ABORT_OPS = {
    "block_decomposition": lambda P: P.block_decomposition(),
    "block_decomposition_as_pattern": lambda P: P.block_decomposition_as_pattern(),
    "maximum_block": lambda P: P.maximum_block(),
    "is_simple": lambda P: P.is_simple(),
    "is_strongly_simple": lambda P: P.is_strongly_simple(),
    "sum_decomposition": lambda P: P.sum_decomposition(),
    "skew_decomposition": lambda P: P.skew_decomposition(),
    "is_sum_decomposable": lambda P: P.is_sum_decomposable(),
    "monotone_block_decomposition(True)": lambda P: list(P.monotone_block_decomposition(True)),
    "contract_bonds": lambda P: P.contract_bonds(),
    "children": lambda P: P.children(),
    "coveredby": lambda P: P.coveredby(),
}
RB_GROUPS = ("decomp", "blocks", "mono", "children")


def _abort_env():
    import os
    import signal
    import sys
    from ..core import REPO
    root = os.path.join(os.path.abspath(REPO), "permuta") + os.sep

    def on_alarm(signum, frame):
        raise TimeoutError("read-back did not finish within 20 s")
    old = signal.signal(signal.SIGALRM, on_alarm)
    old_hook = sys.unraisablehook
    sys.unraisablehook = lambda unraisable: None

    def restore():
        signal.alarm(0)
        signal.signal(signal.SIGALRM, old)
        sys.unraisablehook = old_hook
    return root, signal, restore


class Pristine:
    """Everything the code under test could keep between calls outside the objects handed to it:
    the bindings and the mutable containers at module level and on the classes of the modules
    named below, lru_caches, mutable default arguments.  Taken before any operation has run
    (in the parent, before forking); restore() puts it back IN PLACE, so every injection starts
    from the same state whatever the previous one left behind."""
    MODULES = ("permuta.patterns.perm", "permuta.patterns.patt")

    def __init__(self):
        import collections
        import copy
        import sys
        self.kinds = (list, dict, set, collections.deque)
        self.copy = copy.deepcopy
        self.owners = []
        for mname in self.MODULES:
            mod = sys.modules.get(mname)
            if mod is None:
                continue
            self.owners.append((mod, self._record(vars(mod))))
            for v in list(vars(mod).values()):
                if isinstance(v, type) and getattr(v, "__module__", None) == mname:
                    self.owners.append((v, self._record(vars(v))))

    def _record(self, d):
        names = {}
        for k, v in list(d.items()):
            if k.startswith("__") and k.endswith("__"):
                continue
            snap = self.copy(v) if isinstance(v, self.kinds) else None
            f = v.__func__ if isinstance(v, (classmethod, staticmethod)) else v
            defaults = None
            dflt = getattr(f, "__defaults__", None)
            if dflt and any(isinstance(x, self.kinds) for x in dflt):
                defaults = [(x, self.copy(x)) for x in dflt if isinstance(x, self.kinds)]
            names[k] = (v, snap, f if hasattr(f, "cache_clear") else None, defaults)
        return names

    def _refill(self, live, snap):
        if live == snap:
            return
        fresh = self.copy(snap)
        if isinstance(live, list):
            live[:] = fresh
        elif isinstance(live, (dict, set)):
            live.clear()
            live.update(fresh)
        else:
            live.clear()
            live.extend(fresh)

    def restore(self):
        for owner, names in self.owners:
            cur = vars(owner)
            for k in [k for k in cur if k not in names and not (k.startswith("__") and k.endswith("__"))]:
                delattr(owner, k)
            for k, (v, snap, cache, defaults) in names.items():
                if cur.get(k) is not v:
                    setattr(owner, k, v)
                if snap is not None:
                    self._refill(v, snap)
                if cache is not None:
                    cache.cache_clear()
                if defaults:
                    for live, s in defaults:
                        self._refill(live, s)


_PRISTINE = []       # [Pristine], taken in the parent before the workers are forked


def pristine():
    if not _PRISTINE:
        _P()
        _PRISTINE.append(Pristine())
    return _PRISTINE[0]


def check_abort(part, Perm, p, opname, form, only_k=None):
    """form: 'new' = the operation runs on a new Perm(p); 'std' = on the memoised object handed
    out by Perm.to_standard.  Returns the number of injection points."""
    root, signal, restore = _abort_env()
    key = [2 * v + 1 for v in p]
    op = ABORT_OPS[opname]

    def make():
        pristine().restore()
        return Perm(p) if form == "new" else Perm.to_standard(key)
    try:
        P0 = make()
        _, total = _run_with_abort(lambda: op(P0), None, root)
        for k in ([only_k] if only_k is not None else range(1, total + 1)):
            case0 = {"perm": p, "abort_op": opname, "receiver": form, "abort_at_call": k}
            P0 = make()
            finished, _ = _run_with_abort(lambda: op(P0), k, root)
            signal.alarm(20)
            for route, recv in (("same object", lambda: P0), ("new object", lambda: Perm(p)),
                                ("to_standard", lambda: Perm.to_standard(key))):
                try:
                    obs = unary_observations(Perm, p, None, False, RB_GROUPS, None, recv())
                except Exception as exc:  # noqa
                    part.violation("abort", dict(case0, read_back=route, op="build"),
                                   {"exception": repr(exc)})
                    continue
                for _, o, thunk, exp in obs:
                    observe(part, "abort", dict(case0, read_back=route, op=o), thunk, exp)
            signal.alarm(0)
            part.add(1, 0 if finished else 1)
        return total
    finally:
        restore()


def check_abort_inflate(part, Perm, p, comps, only_k=None):
    root, signal, restore = _abort_env()
    C = Conv(Perm)
    exp = X.inflate(p, comps)
    try:
        def make():
            pristine().restore()
            return Perm(p), [None if c is None else Perm(c) for c in comps]
        P0, real = make()
        _, total = _run_with_abort(lambda: P0.inflate(real), None, root)
        for k in ([only_k] if only_k is not None else range(1, total + 1)):
            case0 = {"perm": p, "comps": list(comps), "abort_op": "inflate", "abort_at_call": k}
            P0, real = make()
            finished, _ = _run_with_abort(lambda: P0.inflate(real), k, root)
            signal.alarm(20)
            observe(part, "abort", dict(case0, op="inflate again: same objects, new objects"),
                    lambda: [C.p(P0.inflate(real)), C.p(P0.inflate(iter(real))),
                             C.p(Perm(p).inflate(inflate_argument("list", Perm, comps)))],
                    [exp] * 3)
            observe(part, "abort", dict(case0, op="inverse of the skeleton"),
                    lambda: C.p(P0.inverse()), X.inverse(p))
            for _, o, thunk, e in unary_observations(Perm, p, None, False, RB_GROUPS, None, P0):
                observe(part, "abort", dict(case0, read_back="skeleton", op=o), thunk, e)
            for j, (c0, obj) in enumerate(zip(comps, real)):
                if obj is not None:
                    for _, o, thunk, e in unary_observations(Perm, c0, None, False, ("decomp", "blocks"),
                                                             None, obj):
                        observe(part, "abort", dict(case0, read_back="component %d" % j, op=o),
                                thunk, e)
            signal.alarm(0)
            part.add(1, 0 if finished else 1)
        return total
    finally:
        restore()


def shard_abort(shard):
    Perm = _P()
    part = Partial()
    if shard[0] == "inflate":
        _, p, alphabet = shard
        for comps in itertools.product(alphabet, repeat=len(p)):
            part.bump("abort_injection_points", check_abort_inflate(part, Perm, p, comps))
    else:
        _, p, opname = shard
        for form in ("new", "std"):
            part.bump("abort_injection_points", check_abort(part, Perm, p, opname, form))
    return part


# --------------------------------------------------------------------------------------------
# duality of children and coveredby, on the implementation alone
# --------------------------------------------------------------------------------------------

def check_duality(part, Perm, q):
    """q in c.coveredby() for every child c of q, and q in r.children() for every r covering q."""
    C = Conv(Perm)
    Q = Perm(q)
    case = {"perm": q, "op": "q in c.coveredby() for c in q.children()"}

    def down():
        return sorted(C.p(c) for c in Q.children() if Q not in set(c.coveredby()))
    observe(part, "duality", case, down, [])
    case = {"perm": q, "op": "q in r.children() for r in q.coveredby()"}

    def up():
        return sorted(C.p(r) for r in Q.coveredby() if Q not in set(r.children()))
    observe(part, "duality", case, up, [])


def shard_duality(shard):
    n, lo, hi = shard
    Perm = _P()
    part = Partial()
    for q in level_slice(n, lo, hi):
        check_duality(part, Perm, q)
        part.add(2, 2 if n >= 2 else 0)
    return part


# --------------------------------------------------------------------------------------------
# insert
# --------------------------------------------------------------------------------------------

def check_insert(part, Perm, p, indices=None, values=None, case0=None):
    """indices / values: None = every index 0..n+1 / every value 0..n.  Arguments are handed over
    as freshly made ints."""
    C = Conv(Perm)
    n = len(p)
    P = Perm(p)
    indices = list(range(n + 2)) if indices is None else indices
    values = list(range(n + 1)) if values is None else values
    case0 = {"perm": p} if case0 is None else case0
    nontriv = 0
    for i in indices:
        for v in values:
            base = dict(case0, index=i, value=v)
            exp = X.insert(p, i, v)
            holder = {}

            def ins():
                holder["q"] = P.insert(fresh_int(i), fresh_int(v))
                return C.p(holder["q"])
            if observe(part, "insert", dict(base, op="insert"), ins, exp):
                Q = holder["q"]
                observe(part, "insert", dict(base, op="insert.remove"),
                        lambda: C.p(Q.remove(fresh_int(min(i, n)))), p)
                observe(part, "insert", dict(base, op="insert.remove_element"),
                        lambda: C.p(Q.remove_element(fresh_int(v))), p)
            if 0 < i < n and 0 < v < n:
                nontriv += 1
    cases = len(indices) * len(values)
    # defaults: index -> right end, value -> n
    observe(part, "insert", dict(case0, op="insert()"), lambda: C.p(P.insert()),
            X.insert(p, n, n))
    observe(part, "insert", dict(case0, op="insert().remove()"), lambda: C.p(P.insert().remove()), p)
    for i in indices:
        observe(part, "insert", dict(case0, index=i, op="insert(index)"),
                lambda: C.p(P.insert(fresh_int(i))), X.insert(p, i, n))
        observe(part, "insert", dict(case0, index=i, op="insert(index=)"),
                lambda: C.p(P.insert(index=fresh_int(i))), X.insert(p, i, n))
    for v in values:
        observe(part, "insert", dict(case0, value=v, op="insert(new_element=)"),
                lambda: C.p(P.insert(new_element=fresh_int(v))), X.insert(p, n, v))
    cases += 2 + 2 * len(indices) + len(values)
    part.add(cases, nontriv)


def shard_insert(shard):
    n, lo, hi = shard
    Perm = _P()
    part = Partial()
    for p in level_slice(n, lo, hi):
        check_insert(part, Perm, p)
    if lo == 0 and n == 4:
        part.sample({"sub": "insert", "perm": (0, 1, 2, 3), "index": 2, "value": 1,
                     "result": X.insert((0, 1, 2, 3), 2, 1)}, cap=1)
    return part


# --------------------------------------------------------------------------------------------
# shifts
# --------------------------------------------------------------------------------------------

def check_shift(part, Perm, p, amax, amounts=None, pair_amounts=None, case0=None):
    """amounts: None = -amax..amax; pair_amounts: the amounts used for the two-shift laws (None =
    the same range).  Amounts are handed over as freshly made ints."""
    C = Conv(Perm)
    n = len(p)
    P = Perm(p)
    rng = list(range(-amax, amax + 1)) if amounts is None else amounts
    prng = rng if pair_amounts is None else pair_amounts
    case0 = {"perm": p} if case0 is None else case0
    single = {}
    ok_all = True
    for a in rng:
        base = dict(case0, a=a)
        for op, exp in (("shift_right", X.shift_right(p, a)), ("shift_left", X.shift_right(p, -a)),
                        ("shift_up", X.shift_up(p, a)), ("shift_down", X.shift_up(p, -a)),
                        ("cyclic_shift", X.shift_right(p, a)),
                        ("cyclic_shift_left", X.shift_right(p, -a))):
            holder = {}

            def call(op=op):
                holder["q"] = getattr(P, op)(fresh_int(a))
                return C.p(holder["q"])
            if observe(part, "shift", dict(base, op=op), call, exp):
                single[(op, a)] = holder["q"]
            else:
                ok_all = False
    for op, exp in (("shift_right", X.shift_right(p, 1)), ("shift_left", X.shift_right(p, -1)),
                    ("shift_up", X.shift_up(p, 1)), ("shift_down", X.shift_up(p, -1))):
        observe(part, "shift", dict(case0, op=op + "()"), lambda op=op: C.p(getattr(P, op)()), exp)
    for a in rng:
        for op, exp in (("shift_right", X.shift_right(p, a)), ("shift_left", X.shift_right(p, -a)),
                        ("shift_up", X.shift_up(p, a)), ("shift_down", X.shift_up(p, -a))):
            observe(part, "shift", dict(case0, a=a, op=op + "(times=)"),
                    lambda op=op: C.p(getattr(P, op)(times=fresh_int(a))), exp)
    nontriv = 0
    cases = 10 * len(rng) + 4
    if ok_all:
        for a in prng:
            R, U = single[("shift_right", a)], single[("shift_up", a)]
            for b in prng:
                base = dict(case0, a=a, b=b)
                fb = fresh_int(b)
                observe(part, "shift", dict(base, op="right(a).right(b)=right(a+b)"),
                        lambda: [C.p(R.shift_right(fb)), C.p(P.shift_right(a + b))],
                        [X.shift_right(p, a + b)] * 2)
                observe(part, "shift", dict(base, op="up(a).up(b)=up(a+b)"),
                        lambda: [C.p(U.shift_up(fb)), C.p(P.shift_up(a + b))],
                        [X.shift_up(p, a + b)] * 2)
                observe(part, "shift", dict(base, op="right(a).left(b)=right(a-b)"),
                        lambda: C.p(R.shift_left(fb)), X.shift_right(p, a - b))
                observe(part, "shift", dict(base, op="up(a).down(b)=up(a-b)"),
                        lambda: C.p(U.shift_down(fb)), X.shift_up(p, a - b))
                observe(part, "shift", dict(base, op="right(a).up(b)=up(b).right(a)"),
                        lambda: [C.p(R.shift_up(fb)),
                                 C.p(single[("shift_up", b)].shift_right(fresh_int(a)))],
                        [X.shift_up(X.shift_right(p, a), b)] * 2)
                cases += 5
                if n >= 3 and a % n and b % n:
                    nontriv += 5
    part.add(cases, nontriv)


def shard_shift(shard):
    n, lo, hi, amax = shard
    Perm = _P()
    part = Partial()
    for p in level_slice(n, lo, hi):
        check_shift(part, Perm, p, amax)
    if lo == 0 and n == 4:
        part.sample({"sub": "shift", "perm": (0, 2, 1, 3), "a": -5,
                     "shift_right": X.shift_right((0, 2, 1, 3), -5),
                     "shift_up": X.shift_up((0, 2, 1, 3), -5)}, cap=1)
    return part


# --------------------------------------------------------------------------------------------
# composition
# --------------------------------------------------------------------------------------------

def check_compose_pair(part, Perm, p, q, laws=True):
    C = Conv(Perm)
    P, Q = Perm(p), Perm(q)
    base = {"perms": [p, q]}
    exp = X.compose(p, q)
    if not observe(part, "compose", dict(base, op="compose"), lambda: C.p(P.compose(Q)), exp):
        return
    if not laws:
        return
    observe(part, "compose", dict(base, op="multiply"), lambda: C.p(P.multiply(Q)), exp)
    observe(part, "compose", dict(base, op="p * q (operator)"), lambda: C.p(P * Q), exp)
    observe(part, "compose", dict(base, op="(pq)^-1=q^-1p^-1"),
            lambda: [C.p(P.compose(Q).inverse()), C.p(Q.inverse().compose(P.inverse()))],
            [X.inverse(exp)] * 2)


def check_compose_single(part, Perm, p):
    C = Conv(Perm)
    P = Perm(p)
    n = len(p)
    ident = tuple(range(n))
    base = {"perms": [p]}
    observe(part, "compose", dict(base, op="compose()"), lambda: C.p(P.compose()), p)
    observe(part, "compose", dict(base, op="p*id,id*p"),
            lambda: [C.p(P.compose(Perm.identity(n))), C.p(Perm.identity(n).compose(P))], [p, p])
    observe(part, "compose", dict(base, op="p*p^-1,p^-1*p"),
            lambda: [C.p(P.compose(P.inverse())), C.p(P.inverse().compose(P))], [ident, ident])
    # the very same object on both sides / several times among the arguments
    observe(part, "compose", dict(base, op="same object: p.compose(p), p*p, p.compose(p,p)"),
            lambda: [C.p(P.compose(P)), C.p(P * P), C.p(P.compose(P, P))],
            [X.compose(p, p), X.compose(p, p), X.compose(p, p, p)])


def check_compose_triple(part, Perm, p, q, r):
    C = Conv(Perm)
    P, Q, R = Perm(p), Perm(q), Perm(r)
    exp = X.compose(p, q, r)
    observe(part, "compose", {"perms": [p, q, r], "op": "associativity"},
            lambda: [C.p(P.compose(Q).compose(R)), C.p(P.compose(Q.compose(R))),
                     C.p(P.compose(Q, R))], [exp] * 3)


def shard_compose(shard):
    kind, n, lo, hi, laws = shard
    Perm = _P()
    part = Partial()
    level = list(itertools.permutations(range(n)))
    ident = tuple(range(n))
    for p in level[lo:hi]:
        if kind == "pairs":
            check_compose_single(part, Perm, p)
            part.add(4, 1 if p != ident else 0)
            for q in level:
                check_compose_pair(part, Perm, p, q, laws)
                part.add(1, 1 if (p != ident and q != ident and X.compose(p, q) != ident) else 0)
        else:
            for q in level:
                for r in level:
                    check_compose_triple(part, Perm, p, q, r)
            part.add(len(level) ** 2,
                     (len(level) - 1) ** 2 if p != ident else 0)
    if kind == "pairs" and lo == 0 and n == 4:
        part.sample({"sub": "compose", "p": (1, 3, 0, 2), "q": (0, 2, 3, 1),
                     "p.compose(q)": X.compose((1, 3, 0, 2), (0, 2, 3, 1))}, cap=1)
    return part


# --------------------------------------------------------------------------------------------
# direct / skew sums
# --------------------------------------------------------------------------------------------

def check_sums(part, Perm, comps):
    C = Conv(Perm)
    cs = [Perm(c) for c in comps]
    base = {"comps": list(comps)}
    for op, ref in (("direct_sum", X.direct_sum), ("skew_sum", X.skew_sum)):
        exp = ref(*comps)

        def variadic(op=op):
            return C.p(getattr(cs[0], op)(*cs[1:]))

        def nested(op=op):
            acc = cs[0]
            for c in cs[1:]:
                acc = getattr(acc, op)(c)
            return C.p(acc)
        observe(part, "sums", dict(base, op=op), variadic, exp)
        # equal components handed over as ONE object (also as the receiver itself)
        shared = {}
        al = [shared.setdefault(c, Perm(c)) for c in comps]
        observe(part, "sums", dict(base, op=op + ":equal components are the same object"),
                lambda op=op: C.p(getattr(al[0], op)(*al[1:])), exp)
        if len(cs) == 2:
            sym = {"direct_sum": "+", "skew_sum": "-"}[op]
            observe(part, "sums", dict(base, op="a %s b (operator)" % sym),
                    lambda op=op: C.p(cs[0] + cs[1] if op == "direct_sum" else cs[0] - cs[1]), exp)
        if len(cs) > 2:
            observe(part, "sums", dict(base, op=op + ":nested"), nested, exp)
            observe(part, "sums", dict(base, op=op + ":right_nested"),
                    lambda op=op: C.p(getattr(cs[0], op)(getattr(cs[1], op)(*cs[2:]))), exp)


def shard_sums(shard):
    pools, first_lo, first_hi = shard
    Perm = _P()
    part = Partial()
    firsts = pools[0][first_lo:first_hi]
    for a in firsts:
        for rest in itertools.product(*pools[1:]):
            comps = (a,) + rest
            check_sums(part, Perm, comps)
            part.add(1, 1 if sum(1 for c in comps if len(c) >= 2) >= 2 else 0)
            if () in comps:
                part.bump("sums_with_empty_component")
    if first_lo == 0 and len(pools) == 2:
        part.sample({"sub": "sums", "comps": [(1, 0), (0, 2, 1)],
                     "direct_sum": X.direct_sum((1, 0), (0, 2, 1)),
                     "skew_sum": X.skew_sum((1, 0), (0, 2, 1))}, cap=1)
    return part


# --------------------------------------------------------------------------------------------
# inflation
# --------------------------------------------------------------------------------------------

INFLATE_FORMS = ("list", "tuple", "iter(list)", "generator expression", "map object", "deque",
                 "dict values", "list with equal components as the same object")


def inflate_argument(form, Perm, comps):
    """The component list `comps` (tuples / None) as the argument object of the named form."""
    import collections
    real = [None if c is None else Perm(c) for c in comps]
    if form == "list":
        return real
    if form == "tuple":
        return tuple(real)
    if form == "iter(list)":
        return iter(real)
    if form == "generator expression":
        return (x for x in real)
    if form == "map object":
        return map(lambda x: x, real)
    if form == "deque":
        return collections.deque(real)
    if form == "dict values":
        return dict(enumerate(real)).values()
    if form == "list with equal components as the same object":
        shared = {}
        return [None if c is None else shared.setdefault(c, Perm(c)) for c in comps]
    raise ValueError(form)


def check_inflate(part, Perm, p, comps):
    """Every argument form up to skeleton length 4; three of them (a sequence, a one-shot
    iterator, a sized non-sequence) at length 5."""
    C = Conv(Perm)
    P = Perm(p)
    exp = X.inflate(p, comps)
    base = {"perm": p, "comps": list(comps)}
    for form in (INFLATE_FORMS if len(p) <= 4 else ("list", "iter(list)", "dict values")):
        observe(part, "inflate", dict(base, op="inflate(%s)" % form),
                lambda: C.p(P.inflate(inflate_argument(form, Perm, comps))), exp)
    if comps and all(c == p for c in comps):
        # the receiver itself as every component
        observe(part, "inflate", dict(base, op="inflate([self] * n)"),
                lambda: C.p(P.inflate([P] * len(p))), exp)
    observe(part, "inflate", dict(base, op="inflate(components=list)"),
            lambda: C.p(P.inflate(components=inflate_argument("list", Perm, comps))), exp)


def shard_inflate(shard):
    n, lo, hi, alphabet = shard
    Perm = _P()
    part = Partial()
    for p in level_slice(n, lo, hi):
        for comps in itertools.product(alphabet, repeat=n):
            check_inflate(part, Perm, p, comps)
            big = any(c is not None and len(c) >= 2 for c in comps)
            odd = any(c is None or len(c) == 0 for c in comps)
            part.add(1, 1 if (big and odd and n >= 2) else 0)
            if () in comps:
                part.bump("inflate_with_empty_component")
    if lo == 0 and n == 3:
        part.sample({"sub": "inflate", "perm": (1, 0, 2), "comps": [None, (0, 1), ()],
                     "result": X.inflate((1, 0, 2), [None, (0, 1), ()])}, cap=1)
    return part


# --------------------------------------------------------------------------------------------
# run
# --------------------------------------------------------------------------------------------

ALIASES = (("sum_decomposable", "is_sum_decomposable"), ("skew_decomposable", "is_skew_decomposable"),
           ("multiply", "compose"), ("shift", "shift_right"), ("cyclic_shift", "shift_right"),
           ("cyclic_shift_right", "shift_right"), ("cyclic_shift_left", "shift_left"),
           ("all_intervals", "block_decomposition"), ("decomposition", "block_decomposition"),
           ("all_monotone_intervals", "monotone_block_decomposition"),
           ("maximal_interval", "maximum_block"), ("simple_location", "maximum_block"),
           ("shrink_by_one", "children"))

CALLED_ALIASES = ("sum_decomposable", "skew_decomposable", "multiply", "cyclic_shift",
                  "cyclic_shift_left", "shrink_by_one")


def upto(n):
    return [p for k in range(n + 1) for p in itertools.permutations(range(k))]


def run(ctx, only=None):
    def want(name):
        return only is None or name in only

    quick = ctx.quick
    Perm = _P()
    pristine()          # import-time state, before any worker exists or any operation has run
    ctx.rule = ("receivers: observations on non-monotone perms of length >= 3; abort: executions in "
                "which the injected exception was actually raised; scale: observations on shapes of length >= 258 (insert / shift cases inside it by "
                "their own rule); unary, long: permutations of length >= 3 that are not monotone; inflations: distinct "
                "members of length >= 9; duality: length >= 2; "
                "insert: 0 < index < n and 0 < value < n; shift: law instances with n >= 3 and neither "
                "amount = 0 mod n; "
                "compose: neither factor nor the product is the identity (triples: p and q, r not "
                "the identity); sums: at least two components of length >= 2; inflate: n >= 2, a "
                "component of length >= 2 and a component that is None or empty.  Every case is "
                "enumerated once.")
    ctx.assumptions = [
        "reference definitions mc/ref_c10.py (point sets / sort keys, no permuta code)",
        "aliases that are the same function object as their target are exercised through the "
        "target only",
        "arguments outside the asserted domains (negative or too large index / value, components "
        "of the wrong number, factors of different length) are not explored",
        "the order inside block_decomposition()[k], children(), coveredby(), "
        "block_decomposition_as_pattern() and the choice among several maximum blocks are not "
        "part of the contract",
        "strongly simple = simple and EVERY one-point deletion is simple (the docstring says 'any'; "
        "the code and this check read it as 'every')",
        "insert(index = n + 1) is accepted by the library's assert (it is the default) and means "
        "the right end, like index = n",
        "the empty permutation has the empty sum / skew decomposition",
        "lengths beyond the stated bounds are not explored"]
    for alias, target in ALIASES:
        if alias in CALLED_ALIASES:
            continue        # called directly by the checks
        if getattr(Perm, alias, None) is not getattr(Perm, target, None):
            ctx.cap("alias Perm.%s is no longer Perm.%s and is not explored separately"
                    % (alias, target))

    # ---- unary -----------------------------------------------------------------------------
    if want("unary"):
        nmax = 7 if quick else 8           # (length 9 would cost ~500 CPU-s more: outside the budget)
        cmax = 6 if quick else 7           # coveredby: table over S_{cmax+1}
        for n in range(0, cmax + 1):
            _COVER[n] = X.cover_table(n)
        per = {0: 1, 1: 1, 2: 2, 3: 6, 4: 12, 5: 15, 6: 45, 7: 105, 8: 420}
        shards = [(n, lo, hi, True) for n in range(0, nmax + 1) for lo, hi in chunks(n, per[n])]
        e0 = ctx.evals
        ctx.pmap(shard_unary, shards)
        _COVER.clear()
        ctx.bounds["unary"] = {
            "perm_length": "0..%d (every permutation, all observers)" % nmax,
            "coveredby_perm_length": "0..%d (table over S_%d)" % (cmax, cmax + 1),
            "second_call_perm_length": "0..%d" % FRESH_MAX}
        ctx.section("unary", perms=ctx.evals - e0)

    # ---- block-structured permutations of length up to 10 / 13 --------------------------------
    if want("inflations"):
        maxlen = 10 if quick else 13
        fam, nskel, ncomp = inflation_family(maxlen)
        _FAMILY[:] = fam
        e0 = ctx.evals
        ctx.pmap(shard_inflations, [(lo, min(len(fam), lo + 400)) for lo in range(0, len(fam), 400)])
        del _FAMILY[:]
        ctx.bounds["inflations"] = {
            "skeletons": "01, 10, the simple permutations of length 4 and 5 (%d)" % nskel,
            "components": "all perms of length 2, 3; simples of length 4..6; increasing and "
                          "decreasing of length 4..6 (%d); with a single non-trivial component also "
                          "simples of length 7 and monotone of length 7, 8 (%d); every other point "
                          "stays a point" % ncomp,
            "non_trivial_components": "at most 2, at every choice of positions",
            "total_length": "<= %d" % maxlen, "distinct_permutations": len(fam),
            "observers": "decomp, blocks, mono groups against the brute-force references"}
        ctx.section("inflations", perms=ctx.evals - e0)

    # ---- every permutation of length 9, interval observers ----------------------------------
    if want("long") and not quick:
        e0 = ctx.evals
        ctx.pmap(shard_long, [(9, lo, hi) for lo, hi in chunks(9, 2268)])
        ctx.bounds["long"] = "every permutation of length 9: the blocks group (block_decomposition, " \
                             "as_pattern, maximum_block, simple_location, is_simple, is_strongly_simple)"
        ctx.section("long", perms=ctx.evals - e0)

    # ---- scale ------------------------------------------------------------------------------
    if want("scale"):
        # the polynomial references are used only after agreeing with the brute-force ones
        for q in upto(6):
            assert X.intervals(q) == X.intervals_minmax(q), q
            for steps in STEPS.values():
                for ones in (False, True):
                    assert X.monotone_runs(q, steps, ones) == X.monotone_runs_linear(q, steps, ones), q
        sizes = [12, 31, 32, 33, 34, 255, 256, 257, 258, 259, 300]
        if not quick:
            sizes = sorted(sizes + [9, 10, 11, 63, 64, 65, 127, 128, 129, 511, 512, 513])
        shards = [sh for n in sizes for sh in scale_shapes(n)]
        e0 = ctx.evals
        ctx.pmap(shard_scale, shards)
        ctx.bounds["scale"] = {
            "lengths": sizes,
            "shapes_per_length": "identity, reverse, i->k*i mod n (3 smallest k in 2,3,5,7,11 coprime "
                                 "to n), rotations by 1, 2, n//2, n-1, identity with one adjacent "
                                 "transposition at 0, 8, 32, 256, 257, n-2, layered with blocks of 2 / 3, "
                                 "2413+identity, 2413-decreasing, 2413[identity,1,1,1], 'q then "
                                 "decreasing' for q = 0, 8, 32, 256, 257, n-1",
            "all_shapes": "every unary observer; removal family at positions/values within 1 of "
                          "0, 8, 32, 256, 257, n-1 and defaults; coveredby for n <= 34; "
                          "block_decomposition_as_pattern below %d blocks; is_strongly_simple of "
                          "simple shapes up to length %d" % (AS_PATTERN_MAX, STRONG_MAX),
            "core_shapes": "id, rev, first mult, rot 1, swap 256, 2413[id], qdec 257: insert (index x "
                           "value windows within 1 of 0, 8, 32, 256, 257, n-1, n(, n+1)) with round "
                           "trips and defaults; the six shifts by +-(c-1..c+1) for c in 0, 8, 32, 256, "
                           "257, n-1, n, n+1 and the pair laws over +-1, +-257, n-1, n+1; compose "
                           "with id, rev, rot 1, own inverse, mult + inverse law + one associativity "
                           "triple; direct/skew sums with 10 and the empty perm; inflate with one "
                           "component at each window position replaced by e / 10 / 021, and as a "
                           "component of 10 and 2413",
            "arguments": "every index / value / amount is passed as int(str(k)), not as the int "
                         "object stored in the permutation"}
        ctx.section("scale", shapes=len(shards), cases=ctx.evals - e0)

    # ---- forms of the receiver ----------------------------------------------------------------
    if want("receivers"):
        nmax = 5 if quick else 6
        per = {0: 1, 1: 1, 2: 2, 3: 6, 4: 6, 5: 8, 6: 24}
        e0 = ctx.evals
        ctx.pmap(shard_receivers, [(n, lo, hi) for n in range(0, nmax + 1)
                                   for lo, hi in chunks(n, per[n])])
        ctx.bounds["receivers"] = {"perm_length": "0..%d" % nmax, "routes": list(RECEIVER_FORMS),
                                   "observers": "all unary observers except coveredby"}
        ctx.section("receivers", observations=ctx.evals - e0)

    # ---- abort ----------------------------------------------------------------------------------
    if want("abort"):
        pool = upto(4) + [(1, 4, 2, 0, 3), (1, 2, 4, 0, 3)]
        if not quick:
            pool += X.simples(5) + [(0, 1, 2, 3, 4), (4, 3, 2, 1, 0), (2, 0, 1, 4, 3)] + \
                X.simples(6)[:4] + X.simples(7)[:2]
        pool = sorted(set(pool), key=lambda p: (len(p), p))
        shards = [("op", p, op) for p in pool for op in ABORT_OPS]
        alphabet = [None, (), (1, 0), (0, 2, 1)]
        skeletons = upto(3) if quick else upto(3) + [(1, 3, 0, 2), (0, 1, 2, 3)]
        shards += [("inflate", p, alphabet) for p in skeletons]
        e0, c0 = ctx.evals, ctx.counters.get("abort_injection_points", 0)
        ctx.pmap(shard_abort, shards)
        ctx.bounds["abort"] = {
            "operations": sorted(ABORT_OPS) + ["inflate"],
            "perms": "every perm of length <= 4 and %d longer ones %r; on a new object and on the "
                     "memoised Perm.to_standard object" % (
                         sum(1 for p in pool if len(p) > 4), [p for p in pool if len(p) > 4]),
            "inflate": "skeletons %s, every component list over %r" % (
                "S<=3" if quick else "S<=3, 2413, 0123", alphabet),
            "state": "module / class bindings and containers of %s, lru_caches and mutable default "
                     "arguments are put back to their import-time content before every execution"
                     % (Pristine.MODULES,),
            "injection": "_Abort(BaseException) at EVERY 'call' event inside <repo>/permuta during the "
                         "operation, one per execution",
            "read_back": "decomp, blocks, mono, children observers on the same object, a new equal "
                         "object and the to_standard object (inflate: inflate again with the same "
                         "and with new objects, inverse of the skeleton, observers on skeleton and "
                         "components); 20 s alarm",
            "injection_points": ctx.counters.get("abort_injection_points", 0) - c0}
        ctx.section("abort", executions=ctx.evals - e0,
                    injection_points=ctx.counters.get("abort_injection_points", 0) - c0)

    # ---- duality ---------------------------------------------------------------------------
    if want("duality"):
        nmax = 6 if quick else 7
        per = {0: 1, 1: 1, 2: 2, 3: 6, 4: 6, 5: 8, 6: 15, 7: 63}
        e0 = ctx.evals
        ctx.pmap(shard_duality, [(n, lo, hi) for n in range(0, nmax + 1)
                                 for lo, hi in chunks(n, per[n])])
        ctx.bounds["duality"] = "every q of length 0..%d against all its children and all its covers" % nmax
        ctx.section("duality", cases=ctx.evals - e0)

    # ---- insert ------------------------------------------------------------------------------
    if want("insert"):
        nmax = 7 if quick else 8
        per = {0: 1, 1: 1, 2: 2, 3: 6, 4: 12, 5: 15, 6: 45, 7: 105, 8: 420}
        e0 = ctx.evals
        ctx.pmap(shard_insert, [(n, lo, hi) for n in range(0, nmax + 1)
                                for lo, hi in chunks(n, per[n])])
        ctx.bounds["insert"] = "perm length 0..%d, every index 0..n+1, every value 0..n, defaults" % nmax
        ctx.section("insert", cases=ctx.evals - e0)

    # ---- shifts --------------------------------------------------------------------------------
    if want("shift"):
        nmax, amax = (5, 7) if quick else (6, 13)
        per = {0: 1, 1: 1, 2: 2, 3: 6, 4: 6, 5: 8, 6: 45}
        e0 = ctx.evals
        ctx.pmap(shard_shift, [(n, lo, hi, amax) for n in range(0, nmax + 1)
                               for lo, hi in chunks(n, per[n])])
        ctx.bounds["shift"] = "perm length 0..%d, amounts a, b in -%d..%d (all pairs)" % (nmax, amax, amax)
        ctx.section("shift", cases=ctx.evals - e0)

    # ---- composition ---------------------------------------------------------------------------
    if want("compose"):
        pmax, tmax = (5, 4) if quick else (6, 5)
        per = {0: 1, 1: 1, 2: 2, 3: 6, 4: 4, 5: 8, 6: 15}
        shards = [("pairs", n, lo, hi, True) for n in range(0, pmax + 1)
                  for lo, hi in chunks(n, per[n])]
        shards += [("triples", n, lo, hi, True) for n in range(0, tmax + 1)
                   for lo, hi in chunks(n, 2 if n >= 4 else 6)]
        e0 = ctx.evals
        ctx.pmap(shard_compose, shards)
        ctx.bounds["compose"] = {"pairs": "all (p, q), equal length 0..%d" % pmax,
                                 "triples": "all (p, q, r), equal length 0..%d" % tmax}
        ctx.section("compose", cases=ctx.evals - e0)

    # ---- sums ------------------------------------------------------------------------------------
    if want("sums"):
        if quick:
            plans = [[upto(4)], [upto(4), upto(4)], [upto(3), upto(3), upto(3)], [upto(2)] * 4]
            desc = "single components and pairs over S<=4, triples over S<=3, quadruples over S<=2"
        else:
            plans = [[upto(5)], [upto(5), upto(5)], [upto(4), upto(4), upto(4)], [upto(3)] * 4,
                     [upto(2)] * 5]
            desc = ("single components and pairs over S<=5, triples over S<=4, quadruples over S<=3, "
                    "quintuples over S<=2")
        shards = []
        for pools in plans:
            step = max(1, len(pools[0]) // 16)
            shards += [(pools, lo, min(len(pools[0]), lo + step))
                       for lo in range(0, len(pools[0]), step)]
        e0 = ctx.evals
        ctx.pmap(shard_sums, shards)
        ctx.bounds["sums"] = desc + " (every component may be empty)"
        ctx.section("sums", cases=ctx.evals - e0)

    # ---- inflate ---------------------------------------------------------------------------------
    if want("inflate"):
        alphabet = [None, (), (0,), (0, 1), (1, 0), (0, 2, 1)]
        plan = [(n, alphabet) for n in range(0, 5)]
        if not quick:
            plan.append((5, alphabet))
            wide = alphabet + [(1, 2, 0), (2, 0, 3, 1)]
            plan += [(n, wide) for n in range(1, 5)]
        shards = []
        for n, alpha in plan:
            per = {0: 1, 1: 1, 2: 1, 3: 1, 4: 2, 5: 4}[n]
            shards += [(n, lo, hi, alpha) for lo, hi in chunks(n, per)]
        e0 = ctx.evals
        ctx.pmap(shard_inflate, shards)
        ctx.bounds["inflate"] = {
            "alphabet": alphabet, "perm_length": "0..%d, every component list" % (4 if quick else 5),
            "wider_alphabet": None if quick else {"alphabet": wide, "perm_length": "1..4"}}
        ctx.section("inflate", cases=ctx.evals - e0)


# --------------------------------------------------------------------------------------------
# replay: re-run the enclosing check on the recorded input, report the recorded case iff it
# still fails
# --------------------------------------------------------------------------------------------

def _tt(x):
    """JSON lists back to tuples (None stays None)."""
    if isinstance(x, list):
        return tuple(_tt(v) for v in x)
    return x


def replay(ctx, rec):
    Perm = _P()
    pristine()
    sub, case = rec["sub"], rec["case"]
    sink = Collect()
    if "shape" in case:
        check_scale(sink, Perm, tuple(case["shape"]), True)
    elif case.get("abort_op") == "inflate":
        check_abort_inflate(sink, Perm, _tt(case["perm"]), [_tt(x) for x in case["comps"]],
                            only_k=case["abort_at_call"])
    elif "abort_op" in case:
        check_abort(sink, Perm, _tt(case["perm"]), case["abort_op"], case["receiver"],
                    only_k=case["abort_at_call"])
    elif "receiver" in case:
        check_receivers(sink, Perm, _tt(case["perm"]))
    elif sub in ("decomp", "blocks", "mono", "children", "covers", "remove", "fresh"):
        p = _tt(case["perm"])
        after = _tt(case.get("after"))
        cover = X.cover_table(len(p))[p] if "coveredby" in case.get("op", "") else None
        if after is not None:
            # the input handled immediately before in the exploration (state carried over)
            check_unary(Collect(), Perm, after, None, after=None)
        check_unary(sink, Perm, p, cover, after=after)
    elif sub == "duality":
        check_duality(sink, Perm, _tt(case["perm"]))
    elif sub == "insert":
        check_insert(sink, Perm, _tt(case["perm"]))
    elif sub == "shift":
        amax = max(7, abs(case.get("a", 0)), abs(case.get("b", 0)))
        check_shift(sink, Perm, _tt(case["perm"]), amax)
    elif sub == "compose":
        ps = [_tt(p) for p in case["perms"]]
        if len(ps) == 1:
            check_compose_single(sink, Perm, ps[0])
        elif len(ps) == 2:
            check_compose_pair(sink, Perm, ps[0], ps[1], True)
        else:
            check_compose_triple(sink, Perm, *ps)
    elif sub == "sums":
        check_sums(sink, Perm, tuple(_tt(c) for c in case["comps"]))
    elif sub == "inflate":
        check_inflate(sink, Perm, _tt(case["perm"]), [_tt(c) for c in case["comps"]])
    else:
        raise ValueError("unknown sub-check %r" % sub)
    for v in sink.viols:
        if v["sub"] == sub and v["case"] == case:
            ctx.violation(sub, case, v["detail"])
            return
