"""C18 - shading-lemma verdicts, point insertion, shading lookups / region tests, rendering.

E1 (bounded exhaustive enumeration).  One *unit* = one mesh pattern; on it, in a fixed order:

  lemma1   p.can_shade(c) for every cell c: a non-empty answer must leave the set of containing
           permutations unchanged on S<=N when c is shaded (reference containment, mc/ref_c18.py);
           every returned value must be the value of a pattern point on a corner of c (docstring:
           "values of the adjacent points to the box")                          [sub: lemma1_point]
  simul    p.can_simul_shade(c1, c2) for ordered pairs of cells (all pairs, or both orders of every
           adjacent pair): non-empty answer => shading both changes nothing on S<=N; returned
           values are points on a corner common to both cells                   [sub: simul_point]
  table    p.shadable_boxes(): every entry sound in the same sense; keys are corner points
           [table_key]; the table lists exactly what the per-cell tests report   [table_complete]
  addpoint p.add_point(c, d) for every unshaded cell and the five directions: the result is
           contained in sigma <=> sigma has an occurrence of p with an entry in cell c (S<=N)
           [addpoint_dir: of the four cells around the new point exactly the two on the named
           side are shaded]
  addpair  add_increase / add_decrease likewise with an increasing / decreasing pair in the cell
  lookups  shade, is_shaded (cells and all rectangles), is_pointfree (all rectangles),
           non_pointless_boxes, has_anchored_point against geometric definitions
  render   ascii_plot(cell size) read back by an independent parser gives the same pattern
  fresh    every operation whose result is (or holds) a mutable container - can_shade,
           can_simul_shade, its alias can_shade2, shadable_boxes (dict of lists), non_pointless_boxes,
           and add_point / add_increase / add_decrease / shade should their results ever hold one:
           the caller damages the returned object in place at every nesting level (append a
           sentinel; then clear) and asks again on the same object, on a new equal object and
           through the alias; every later answer must equal the first one, must not hold the
           sentinel, and a licence that appeared is checked against the containment oracle

  derived  (E2, mc/explore.py) breadth-first search over histories on a small pool of start
           patterns: use-operations that may leave hidden state on an object (rotate(k), reverse,
           complement, inverse, all_syms, one can_shade / can_simul_shade query, shadable_boxes,
           hash, ==) and derive-operations whose result becomes a new live object (shade, add_point,
           add_increase, add_decrease, sub_mesh_pattern, the result of rotate(k) / reverse /
           complement / inverse).  After every step every live object must answer can_shade (all
           cells), can_simul_shade (adjacent pairs), shadable_boxes, rotate(k), ==, hash exactly
           like a freshly constructed equal pattern, and its licences must be sound (reference
           lemma, else containment search).  State = values of the live objects + every instance
           attribute beyond pattern/shading (recursively) + module/class level containers.

All semantic comparisons use the reference only (never the library's own containment); the library
supplies just the answer under test.  Replays re-run the whole unit (after a warm-up unit, so that
state kept between calls shows up again) and report the recorded query iff it still fails.
"""
from __future__ import annotations

import itertools

from .. import ref_c18 as X
from .. import refmodel as R
from ..core import Partial

PROPERTY = "C18"
LEVEL = "exploration"

ALL_SUBS = ("lemma1", "simul", "table", "addpoint", "addpair", "lookups", "render", "fresh", "derived")

# filled by run()/replay() before any unit is evaluated (inherited by forked workers)
TEXTS = []          # S<=N
RICH = {}           # classical pattern -> {(mask, inc, dec): bitset}
SEMS = {}           # classical pattern -> X.Sem  (per process; tabulated ones kept in a small LRU)
_TAB_LRU = []


class Lib:
    def __init__(self):
        from permuta import MeshPatt, Perm
        from permuta.misc import DIR_EAST, DIR_NONE, DIR_NORTH, DIR_SOUTH, DIR_WEST
        self.MeshPatt, self.Perm = MeshPatt, Perm
        self.dirs = (("none", DIR_NONE), ("east", DIR_EAST), ("north", DIR_NORTH),
                     ("west", DIR_WEST), ("south", DIR_SOUTH))


def sem_of(patt, tabulate=False):
    patt = tuple(patt)
    s = SEMS.get(patt)
    if s is None:
        rich = RICH.get(patt)
        if rich is None:
            raise KeyError("no occupancy table for pattern %r (horizon too small)" % (patt,))
        s = SEMS[patt] = X.Sem(patt, rich)
        s.texts = TEXTS
    if tabulate and s._f is None and s.ncells <= 16:
        s.tabulate()
        if s.ncells == 16:                      # big tables: keep at most two per process
            _TAB_LRU.append(s)
            while len(_TAB_LRU) > 2:
                _TAB_LRU.pop(0)._f = None
    return s


_LOCAL = {}


def local_sem_of(patt, extra):
    """X.LocalSem(patt, extra), a few kept per process."""
    key = (tuple(patt), extra)
    s = _LOCAL.get(key)
    if s is None:
        while len(_LOCAL) >= 3:
            _LOCAL.pop(next(iter(_LOCAL)))
        s = _LOCAL[key] = X.LocalSem(patt, extra)
    return s


def build_tables(ctx, N, maxk):
    """Occupancy tables of every classical pattern of length <= maxk over S<=N."""
    global TEXTS, RICH
    TEXTS = X.texts_upto(N)
    SEMS.clear()
    del _TAB_LRU[:]
    n = len(TEXTS)
    step = max(1, n // 64)
    shards = [(TEXTS, lo, min(n, lo + step), maxk) for lo in range(0, n, step)]
    if ctx is None:
        parts = [X.table_chunk(s) for s in shards]
    else:
        parts = ctx.pmap(_table_shard, shards)
    RICH = X.merge_tables(parts)


def _table_shard(shard):
    return None, X.table_chunk(shard)


def selftest_tables():
    """The grouped tables against the plain definitions (refmodel.mesh_occurrences) for every
    mesh pattern of length <= 2 on S<=4 (incl. the 'entry / increasing pair / decreasing pair in
    the cell' sets).  A disagreement is a harness error, never a verdict."""
    small = [t for t in TEXTS if len(t) <= 4]
    for k in range(0, 3):
        for patt in R.perms(k):
            sem = X.Sem(patt, RICH[patt])
            for shm in range(1 << ((k + 1) ** 2)):
                shading = X.cells_of(k, shm)
                got = sem.contain(shm)
                wp = sem.with_point(shm)
                for ti, t in enumerate(small):
                    occs = R.mesh_occurrences(patt, shading, t)
                    assert bool(occs) == bool(got >> ti & 1), ("contain", patt, shading, t)
                    if shm % 7 and k == 2:
                        continue            # the cell sets: every 7th shading of length 2, all shorter
                    seen = {}
                    for idx in occs:
                        rest = [i for i in range(len(t)) if i not in idx]
                        for i in rest:
                            c = R.cell_of(idx, t, i)
                            e = seen.setdefault(c, [False, False, False])
                            e[0] = True
                            for j in rest:
                                if i < j and R.cell_of(idx, t, j) == c:
                                    e[1 if t[i] < t[j] else 2] = True
                    for c in R.all_cells(k):
                        e = seen.get(c, [False, False, False])
                        g = [bool(b >> ti & 1) for b in wp[X.cbit(k, c)]]
                        assert e == g, ("with_point", patt, shading, t, c, e, g)


def selftest_local():
    """LocalSem (extensions of the pattern) against the global tables: same containing texts,
    same verdict for every single added cell, for all shadings of 10 and a slice of those of 021."""
    for patt, stride in (((1, 0), 1), ((0, 2, 1), 97)):
        k = len(patt)
        loc = X.LocalSem(patt, 2)
        glob = X.Sem(patt, RICH[patt])
        index = {t: i for i, t in enumerate(TEXTS)}
        sel = [index[t] for t in loc.texts]
        for shm in range(0, 1 << ((k + 1) ** 2), stride):
            base, forced = loc.analyse(shm)
            g = glob.contain(shm)
            assert base == loc.contain(shm)
            assert all(bool(g >> gi & 1) == bool(base >> li & 1) for li, gi in enumerate(sel)), (patt, shm)
            small = sum(1 << gi for gi in sel)
            for c in R.all_cells(k):
                cb = X.cbit(k, c)
                lost_glob = (g & ~glob.contain(shm | cb)) & small
                assert bool(lost_glob) == bool(forced & cb) == (loc.lost(shm, cb) is not None), (patt, shm, c)


# --------------------------------------------------------------------------------------------
# one unit
# --------------------------------------------------------------------------------------------

def _is_int_list(v):
    # a cell has four corners: longer answers are never scanned (they are reported as *_point)
    return isinstance(v, list) and all(isinstance(a, int) and not isinstance(a, bool) for a in v[:5])


def _cell(c):
    return (int(c[0]), int(c[1]))


def eval_unit(part, lib, patt, shm, cfg, warm=None):
    """Run every selected sub-check on the mesh pattern (patt, shading mask shm)."""
    k = len(patt)
    cells = R.all_cells(k)
    shading = frozenset(X.cells_of(k, shm))
    subs = cfg["subs"]
    base = {"patt": list(patt), "shading": sorted(shading), "N": cfg["N"]}
    if cfg.get("local"):
        base["local"] = cfg["local"]
    if cfg.get("ref_first"):
        base["scale"] = True
    if warm is not None:
        base["warm"] = warm

    def viol(sub, extra, detail):
        if part.nviol >= part.MAXV:          # beyond the recorded ones only the count matters
            part.nviol += 1
            return
        case = dict(base)
        case.update(extra)
        part.violation(sub, case, detail() if callable(detail) else detail)

    try:
        p = lib.MeshPatt(lib.Perm(patt), sorted(shading))
    except Exception as exc:  # noqa
        viol("construct", {}, {"exception": repr(exc)})
        return
    sound_cache = {}
    if cfg.get("ref_first"):
        # scale family: a licence that the shading lemmas themselves (re-stated on the box grid,
        # polynomial) grant is sound by the theorem; only a licence they do NOT grant is searched
        # for a containment witness among the extensions of the pattern by <= cfg["local"] points
        sem = None
        base_set = None
        lazy = []

        def unsound(cm):
            r = sound_cache.get(cm, 0)
            if r != 0:
                return r
            cs = X.cells_of(k, cm)
            if len(cs) == 1:
                ok = X.ref_lemma_points(patt, shading, cs[0]) or cs[0] in shading
            elif len(cs) == 2:
                ok = X.ref_simul_points(patt, shading, cs[0], cs[1])
            else:
                ok = False
            if ok:
                r = None
            else:
                part.bump("scale_licences_beyond_the_lemmas")
                if not lazy:
                    lazy.append(local_sem_of(patt, cfg["local"]))
                r = lazy[0].lost(shm, cm)
                if r is None:
                    part.bump("scale_licences_beyond_the_lemmas_unrefuted")
                else:
                    r = list(r)
            sound_cache[cm] = r
            return r
    elif cfg.get("local"):
        # long patterns: texts = all extensions of the pattern by <= cfg["local"] points
        sem = local_sem_of(patt, cfg["local"])
        base_set, forced = sem.analyse(shm)

        def unsound(cm):
            if not cm & (cm - 1):                    # one cell: read off the forced cells
                return list(sem.lost(shm, cm)) if forced & cm else None
            r = sound_cache.get(cm, 0)
            if r == 0:
                r = sem.lost(shm, cm)
                r = sound_cache[cm] = None if r is None else list(r)
            return r
    else:
        sem = sem_of(patt, tabulate=True)
        base_set = sem.contain(shm)

        def unsound(cm):
            """None if shading the cells of mask cm keeps the containing set on S<=N, else a witness."""
            r = sound_cache.get(cm, 0)
            if r == 0:
                after = sem.contain(shm | cm)
                r = None if after == base_set else list(TEXTS[X.first_bit(after ^ base_set)])
                sound_cache[cm] = r
            return r

    single = {}     # cell -> answer of can_shade
    pairs = {}      # (c1, c2) -> answer of can_simul_shade

    # ---- lemma1 ---------------------------------------------------------------------------
    need_queries = "table" in subs
    if "lemma1" in subs or need_queries:
        report = "lemma1" in subs
        lemma_cells = cells
        if cfg.get("cells") == "point-adjacent" and (not need_queries or cfg.get("queries") == "point"):
            lemma_cells = sorted(X.ref_non_pointless(patt))
        for c in lemma_cells:
            try:
                got = p.can_shade(c)
            except Exception as exc:  # noqa
                if report:
                    viol("lemma1", {"cell": c}, {"exception": repr(exc)})
                continue
            single[c] = got
            if cfg.get("validate_ref") and X.ref_lemma_points(patt, shading, c):
                part.bump("reference_lemma_licences_validated")
                assert unsound(X.cbit(k, c)) is None, ("HARNESS: reference shading lemma unsound",
                                                        patt, sorted(shading), c)
            if not report:
                continue
            if not _is_int_list(got):
                viol("lemma1", {"cell": c}, {"not a list of ints": repr(got)})
                continue
            part.add(1, 1 if got else 0)
            if len(got) > 4:
                viol("lemma1_point", {"cell": c}, {"answer has %d values, first" % len(got): got[:5]})
                got = got[:5]
            part.outcomes.add(("can_shade", k, tuple(got)))
            if got:
                part.bump("lemma1_positive")
                w = unsound(X.cbit(k, c))
                if w is None and k >= 1 and shading and base_set is not None:
                    part.sample({"pattern": patt, "shading": sorted(shading), "can_shade": c, "answer": got,
                                 "texts of S<=%d containing it, before = after shading" % cfg["N"]:
                                     bin(base_set).count("1")}, cap=1)
                if w is not None:
                    viol("lemma1", {"cell": c}, {"answer": got, "contains p but not p.shade(cell)": w})
                ok = X.corner_point_values(patt, [c])
                if any(v not in ok for v in got) or len(set(got)) != len(got):
                    viol("lemma1_point", {"cell": c}, {"answer": got, "corner point values": sorted(ok)})

    # ---- simul ----------------------------------------------------------------------------
    if "simul" in subs or need_queries:
        report = "simul" in subs
        adjacent = [(a, b) for a in cells for b in cells
                    if abs(a[0] - b[0]) + abs(a[1] - b[1]) == 1]
        if cfg["pairs"] == "all" and report:
            todo = [(a, b) for a in cells for b in cells]
        elif cfg["pairs"] == "point-dominoes":
            todo = list(X.point_dominoes(patt))            # lower-left cell first
            if cfg.get("orders") == "both":
                todo += [(b, a) for a, b in todo]
        else:
            todo = adjacent
        for (a, b) in todo:
            try:
                got = p.can_simul_shade(a, b)
            except Exception as exc:  # noqa
                if report:
                    viol("simul", {"cells": [a, b]}, {"exception": repr(exc)})
                continue
            pairs[(a, b)] = got
            if cfg.get("validate_ref") and a < b and X.ref_simul_points(patt, shading, a, b):
                part.bump("reference_lemma_licences_validated")
                assert unsound(X.cbit(k, a) | X.cbit(k, b)) is None, (
                    "HARNESS: reference simultaneous shading lemma unsound", patt, sorted(shading), a, b)
            if not report:
                continue
            if not _is_int_list(got):
                viol("simul", {"cells": [a, b]}, {"not a list of ints": repr(got)})
                continue
            part.add(1, 1 if got else 0)
            if len(got) > 4:
                viol("simul_point", {"cells": [a, b]}, {"answer has %d values, first" % len(got): got[:5]})
                got = got[:5]
            part.outcomes.add(("can_simul_shade", k, tuple(got)))
            if got:
                part.bump("simul_positive")
                w = unsound(X.cbit(k, a) | X.cbit(k, b))
                if w is not None:
                    viol("simul", {"cells": [a, b]},
                         {"answer": got, "contains p but not p.shade(both)": w})
                ok = X.corner_point_values(patt, [a, b])
                if any(v not in ok for v in got) or len(set(got)) != len(got):
                    viol("simul_point", {"cells": [a, b]},
                         {"answer": got, "common corner point values": sorted(ok)})

    # ---- table ----------------------------------------------------------------------------
    if "table" in subs:
        try:
            tab = p.shadable_boxes()
            entries = []
            limit = 12 * len(cells) + 1          # 4 corners x (cell + two pairs) per cell
            for key, lst in tab.items():
                for boxes in lst[:limit]:
                    entries.append((key, tuple(_cell(c) for c in boxes)))
            if sum(len(lst) for lst in tab.values()) >= limit:
                viol("table_complete", {}, "the table has more entries than cells x corners x 3")
                entries = entries[:limit]
        except Exception as exc:  # noqa
            viol("table", {}, {"exception": repr(exc)})
            entries = None
        if entries is not None:
            part.add(1, 1 if entries else 0)
            part.bump("table_entries", len(entries))
            for key, boxes in entries:
                if not (1 <= len(boxes) <= 2) or any(c not in cells for c in boxes):
                    viol("table", {"entry": [key, boxes]}, "entry is not one or two cells of the grid")
                    continue
                w = unsound(X.mask_of(k, boxes))
                if w is not None:
                    viol("table", {"entry": [key, boxes]}, {"contains p but not p.shade(entry)": w})
                if key not in X.corner_point_values(patt, boxes):
                    viol("table_key", {"entry": [key, boxes]},
                         {"common corner point values": sorted(X.corner_point_values(patt, boxes))})
            # what the per-cell tests report: exp_min from the argument order the table itself
            # would naturally use (lower-left cell first), exp_max from both argument orders
            exp_min, exp_max = set(), set()
            for c, got in single.items():
                if _is_int_list(got):
                    got = got[:5]
                    exp_min.update((v, frozenset([c])) for v in got)
            exp_max |= exp_min
            for (a, b), got in pairs.items():
                if _is_int_list(got) and abs(a[0] - b[0]) + abs(a[1] - b[1]) == 1:
                    got = got[:5]
                    exp_max.update((v, frozenset([a, b])) for v in got)
                    if a < b:
                        exp_min.update((v, frozenset([a, b])) for v in got)
            have = {(key, frozenset(boxes)) for key, boxes in entries}
            have_cmp = have
            if cfg.get("queries") == "point":
                # only cells / dominoes at pattern points were queried; entries elsewhere have no
                # corner point and are reported as table_key above
                queried = {frozenset([c]) for c in single} | {frozenset(ab) for ab in pairs}
                have_cmp = {e for e in have if e[1] in queried}
            if not (exp_min <= have and have_cmp <= exp_max):
                viol("table_complete", {},
                     {"in table only": sorted((k_, sorted(b)) for k_, b in have - exp_max),
                      "reported by can_shade/can_simul_shade only":
                          sorted((k_, sorted(b)) for k_, b in exp_min - have)})

    # ---- addpoint / addpair ---------------------------------------------------------------
    if "addpoint" in subs or "addpair" in subs:
        wp = sem.with_point(shm)
        free = [c for c in cells if c not in shading]
        for c in free:
            lhs_pt, lhs_inc, lhs_dec = wp[X.cbit(k, c)]
            jobs = []
            if "addpoint" in subs and cfg["N"] >= k + 1:
                jobs.append(("addpoint", "default", lhs_pt, lambda c=c: p.add_point(c)))
                for name, d in lib.dirs:
                    jobs.append(("addpoint", name, lhs_pt, lambda c=c, d=d: p.add_point(c, d)))
                    if cfg.get("kw"):
                        jobs.append(("addpoint", name + "-kw", lhs_pt,
                                     lambda c=c, d=d: p.add_point(c, shade_dir=d)))
            if "addpair" in subs and cfg["N"] >= k + 2 and k + 2 <= cfg["maxk"]:
                jobs.append(("addpair", "increase", lhs_inc, lambda c=c: p.add_increase(c)))
                jobs.append(("addpair", "decrease", lhs_dec, lambda c=c: p.add_decrease(c)))
            for sub, name, lhs, call in jobs:
                extra = {"cell": c, "how": name}
                try:
                    q = call()
                    qp = tuple(int(v) for v in q.pattern)
                    qs = [_cell(s) for s in q.shading]
                except Exception as exc:  # noqa
                    viol(sub, extra, {"exception": repr(exc)})
                    continue
                want_len = k + (1 if sub == "addpoint" else 2)
                if len(qp) != want_len or not R.is_perm(qp) or \
                        any(not (0 <= a <= want_len and 0 <= b <= want_len) for a, b in qs):
                    viol(sub, extra, {"result is not a mesh pattern of length %d" % want_len: repr(q)})
                    continue
                rhs = sem_of(qp).contain(X.mask_of(want_len, qs))
                part.add(1, 1 if (lhs and lhs != base_set) else 0)
                if lhs == rhs and name == "east" and k >= 1 and shading:
                    part.sample({"pattern": patt, "shading": sorted(shading), "add_point": c, "dir": name,
                                 "result": [list(qp), sorted(qs)],
                                 "texts containing the result = texts with an entry in the cell":
                                     bin(lhs).count("1"), "texts containing the pattern": bin(base_set).count("1")},
                                cap=2)
                if lhs != rhs:
                    def detail(sub=sub, qp=qp, qs=qs, lhs=lhs, rhs=rhs):
                        ti = X.first_bit(lhs ^ rhs)
                        return {"result": [list(qp), sorted(qs)], "text": list(TEXTS[ti]),
                                "text has an occurrence of p with %s in the cell" %
                                ("an entry" if sub == "addpoint" else "such a pair"): bool(lhs >> ti & 1),
                                "text contains the result": bool(rhs >> ti & 1)}
                    viol(sub, extra, detail)
                if sub == "addpoint" and qp[c[0]] == c[1]:
                    # the four cells around the new point (it sits at index x with value y); the
                    # ones on the side named by the direction must be the shaded ones
                    around = X.cells_around_point(c[0], c[1])
                    side = X.cells_on_side(c[0], c[1], name.split("-")[0])
                    if {a for a in around if a in set(qs)} != side:
                        viol("addpoint_dir", extra,
                             {"result": [list(qp), sorted(qs)], "cells around the new point": sorted(around),
                              "expected shaded among them": sorted(side)})
        if tuple(p.pattern) != tuple(patt) or set(p.shading) != set(shading):
            viol("addpoint", {"how": "receiver"}, {"the pattern was modified": repr(p)})

    # ---- lookups --------------------------------------------------------------------------
    if "lookups" in subs:
        positions = [()] + [(c,) for c in cells] + list(itertools.combinations(cells, 2))
        for pos in positions:
            try:
                q = p.shade(*pos)
                ok = (tuple(q.pattern) == tuple(patt) and set(q.shading) == set(shading) | set(pos)
                      and isinstance(q, lib.MeshPatt))
                ok = ok and set(p.shading) == set(shading)
            except Exception as exc:  # noqa
                viol("lookups", {"call": "shade", "positions": pos}, {"exception": repr(exc)})
                continue
            part.add(1, 1 if any(c not in shading for c in pos) else 0)
            if not ok:
                viol("lookups", {"call": "shade", "positions": pos}, {"got": repr(q)})
        for c in cells:
            try:
                got = p.is_shaded(c)
            except Exception as exc:  # noqa
                got = repr(exc)
            part.add(1, 0)
            if got is not (c in shading):
                viol("lookups", {"call": "is_shaded", "cell": c}, {"expected": c in shading, "got": got})
        for ll, ur in X.rectangles(k):
            ncell = (ur[0] - ll[0] + 1) * (ur[1] - ll[1] + 1)
            exp = X.ref_is_shaded_rect(shading, ll, ur)
            try:
                got = p.is_shaded(ll, ur)
            except Exception as exc:  # noqa
                got = repr(exc)
            nsh = sum(1 for x in range(ll[0], ur[0] + 1) for y in range(ll[1], ur[1] + 1)
                      if (x, y) in shading)
            part.add(1, 1 if (ncell > 1 and nsh >= ncell - 1) else 0)
            if got is not exp:
                viol("lookups", {"call": "is_shaded", "rect": [ll, ur]}, {"expected": exp, "got": got})
            exp = X.ref_is_pointfree(patt, ll, ur)
            try:
                got = p.is_pointfree(ll, ur)
            except Exception as exc:  # noqa
                got = repr(exc)
            part.add(1, 1 if ncell > 1 else 0)
            if got is not exp:
                viol("lookups", {"call": "is_pointfree", "rect": [ll, ur]}, {"expected": exp, "got": got})
        try:
            got = p.non_pointless_boxes()
            got = set(_cell(c) for c in got)
        except Exception as exc:  # noqa
            got = repr(exc)
        part.add(1, 1 if k else 0)
        if got != X.ref_non_pointless(patt):
            viol("lookups", {"call": "non_pointless_boxes"},
                 {"expected": sorted(X.ref_non_pointless(patt)), "got": got})
        try:
            got = p.has_anchored_point()
            got = tuple(got)
        except Exception as exc:  # noqa
            got = repr(exc)
        exp = X.ref_anchored(patt, shading)
        part.add(1, 1 if any(exp) else 0)
        if got != exp or not all(isinstance(b, bool) for b in got):
            viol("lookups", {"call": "has_anchored_point"}, {"expected": exp, "got": got})

    # ---- render ---------------------------------------------------------------------------
    if "render" in subs:
        for s in cfg["cell_sizes"] + ("default",):
            try:
                txt = p.ascii_plot() if s == "default" else p.ascii_plot(s)
            except Exception as exc:  # noqa
                viol("render", {"cell_size": s}, {"exception": repr(exc)})
                continue
            part.add(1, 1 if (k and shading) else 0)
            try:
                back = X.parse_plot(txt, 1 if s == "default" else s)
            except X.PlotError as exc:
                viol("render", {"cell_size": s}, {"plot": txt.split("\n"), "cannot be read": str(exc)})
                continue
            if back != (tuple(patt), set(shading)):
                viol("render", {"cell_size": s},
                     {"plot": txt.split("\n"), "reads as": [list(back[0]), sorted(back[1])]})

    # ---- fresh ----------------------------------------------------------------------------
    if "fresh" in subs:
        def new_equal():
            return lib.MeshPatt(lib.Perm(patt), sorted(shading))

        adjacent = [(a, b) for a in cells for b in cells
                    if abs(a[0] - b[0]) + abs(a[1] - b[1]) == 1]
        free = [c for c in cells if c not in shading]
        # (call name, case keys, how to ask an object, extra routes, mask of the cells licensed)
        queries = []
        for c in cells:
            queries.append(("can_shade", {"cell": c}, lambda o, c=c: o.can_shade(c), (), X.cbit(k, c)))
        for (a, b) in adjacent:
            queries.append(("can_simul_shade", {"cells": [a, b]},
                            lambda o, a=a, b=b: o.can_simul_shade(a, b),
                            (("can_shade2 on a new equal object", lambda a=a, b=b: new_equal().can_shade2(a, b)),),
                            X.cbit(k, a) | X.cbit(k, b)))
            queries.append(("can_shade2", {"cells": [a, b]},
                            lambda o, a=a, b=b: o.can_shade2(a, b),
                            (("can_simul_shade on a new equal object",
                              lambda a=a, b=b: new_equal().can_simul_shade(a, b)),),
                            X.cbit(k, a) | X.cbit(k, b)))
        queries.append(("shadable_boxes", {}, lambda o: o.shadable_boxes(), (), 0))
        queries.append(("non_pointless_boxes", {}, lambda o: o.non_pointless_boxes(), (), 0))
        for c in free:
            queries.append(("add_point", {"cell": c}, lambda o, c=c: o.add_point(c), (), 0))
            queries.append(("add_increase", {"cell": c}, lambda o, c=c: o.add_increase(c), (), 0))
            queries.append(("add_decrease", {"cell": c}, lambda o, c=c: o.add_decrease(c), (), 0))
        for c in cells:
            queries.append(("shade", {"cell": c}, lambda o, c=c: o.shade(c), (), 0))

        def fviol(q, detail):
            viol("fresh", dict(q[1], call=q[0]), detail)

        first = {}
        for qi, q in enumerate(queries):
            try:
                first[qi] = X.norm_result(q[2](p))
            except Exception as exc:  # noqa
                fviol(q, {"exception": repr(exc)})
                continue
            part.add(1, 0)
            if X.holds_sentinel(first[qi]):
                fviol(q, {"the answer holds a value that only a caller can have put there": first[qi]})
        for kind in ("append", "clear"):
            for qi, q in enumerate(queries):
                if qi not in first:
                    continue
                try:
                    r = q[2](p)
                    if not X.damage(r, kind):
                        continue                      # nothing mutable in the result
                    routes = (("same object", lambda q=q: q[2](p)),
                              ("new equal object", lambda q=q: q[2](new_equal()))) + q[3]
                    for rname, again in routes:
                        r2 = again()
                        n2 = X.norm_result(r2)
                        part.add(1, 1)
                        if n2 != first[qi] or X.holds_sentinel(n2):
                            det = {"the caller damaged an earlier answer in place by": kind,
                                   "asked again on": rname, "first answer": first[qi], "now": n2}
                            if q[4] and isinstance(r2, list) and r2 and not first[qi][1]:
                                det["now licensed; contains p but not p.shade(cells)"] = unsound(q[4])
                            fviol(q, det)
                        X.damage(r2, kind)
                except Exception as exc:  # noqa
                    fviol(q, {"exception": repr(exc), "damage": kind})


# --------------------------------------------------------------------------------------------
# derived objects: history search
# --------------------------------------------------------------------------------------------

_BASELINE = None      # module / class level containers of permuta.patterns.meshpatt at import time


def _containers(lib):
    import sys
    mod = sys.modules[lib.MeshPatt.__module__]
    out = []
    for owner, name_prefix in ((mod, ""), (lib.MeshPatt, "MeshPatt.")):
        for k_, v in sorted(vars(owner).items()):
            if k_.startswith("__"):
                continue
            if isinstance(v, (dict, list, set)) or hasattr(v, "cache_info"):
                out.append((name_prefix + k_, v))
    return out


def take_baseline(lib):
    """Remember the contents of every module/class level container (memo tables a change may
    introduce) so that every replayed history starts from the state at import time."""
    global _BASELINE
    import copy
    base = {}
    for name, v in _containers(lib):
        if not hasattr(v, "cache_info"):
            try:
                base[name] = copy.copy(v)
            except Exception:  # noqa
                pass
    _BASELINE = base


def reset_library_state(lib):
    for name, v in _containers(lib):
        if hasattr(v, "cache_clear"):
            v.cache_clear()
        elif _BASELINE is not None and name in _BASELINE:
            old = _BASELINE[name]
            v.clear()
            if isinstance(v, list):
                v.extend(old)
            else:
                v.update(old)
        elif _BASELINE is not None:
            v.clear()                    # a container that did not exist at import time


def _value(o):
    return (tuple(int(v) for v in o.pattern), tuple(sorted(_cell(c) for c in o.shading)))


def _freeze_hidden(v, depth):
    if depth > 6:
        return "..."
    if isinstance(v, dict):
        return ("dict",) + tuple((_freeze_hidden(a, depth + 1), _freeze_hidden(b, depth + 1))
                                 for a, b in v.items())          # insertion order is state
    if isinstance(v, (list, tuple)) and not hasattr(v, "shading"):
        if hasattr(v, "__dict__") and v.__dict__:                 # a Perm with its memo slots
            return ("seq", tuple(v), tuple((a, b is not None) for a, b in v.__dict__.items()))
        return ("seq",) + tuple(_freeze_hidden(a, depth + 1) for a in v)
    if isinstance(v, (set, frozenset)):
        return ("set",) + tuple(sorted(repr(_freeze_hidden(a, depth + 1)) for a in v))
    if isinstance(v, (int, str, float, bool)) or v is None:
        return v
    if hasattr(v, "pattern") and hasattr(v, "shading"):
        return ("mesh", _value(v), _hidden(v, depth + 1))
    return repr(type(v))


def _hidden(o, depth=0):
    """Everything an instance carries beyond the two constructor fields."""
    d = getattr(o, "__dict__", {})
    out = []
    for k_, v in d.items():
        if k_ == "shading":
            continue
        if k_ == "pattern":
            pd = getattr(v, "__dict__", None)
            if pd:
                out.append(("pattern.__dict__", tuple((a, b is not None) for a, b in pd.items())))
            continue
        out.append((k_, _freeze_hidden(v, depth + 1)))
    return tuple(out)


def _tuplize(x):
    return tuple(_tuplize(a) for a in x) if isinstance(x, (list, tuple)) else x


DERIVE_OPS = ("shade", "add_point", "add_increase", "add_decrease", "sub_mesh_pattern",
              "rotate_live", "reverse_live", "complement_live", "inverse_live")


class DerivedModel:
    def __init__(self, lib, start, depth, max_derive, max_live, all_boxes, always_check=False):
        self.lib = lib
        self.start = (tuple(start[0]), tuple(sorted(tuple(c) for c in start[1])))
        self.depth, self.max_derive, self.max_live = depth, max_derive, max_live
        self.all_boxes = all_boxes
        self.always_check = always_check
        self.checked = set()
        self.oracle_runs = 0
        self.verified = set()      # (value, hidden state, global state) already compared with fresh
        self.fresh_obs = {}        # (value, global state) -> observations of a fresh object

    # ---- menu ----
    def boxes(self, patt, shading):
        k = len(patt)
        free = [c for c in R.all_cells(k) if c not in shading]
        if self.all_boxes and k <= 2:
            return free
        pick = []
        for c in ([free[0], free[-1]] if free else []) + [c for c in free if c[0] + c[1] == k][:1]:
            if c not in pick:
                pick.append(c)
        return pick

    def enabled(self, canon, hist):
        vals = canon[0]
        nder = sum(1 for op in hist if op[0] in DERIVE_OPS)
        for i, (patt, sh) in enumerate(vals):
            k = len(patt)
            shading = set(sh)
            for t in (1, 2, 3, -1):
                yield ("rotate", i, t)
            for name in ("reverse", "complement", "inverse", "all_syms", "shadable_boxes", "hash", "eq"):
                yield (name, i)
            box0 = (1, patt[0] + 1) if k else (0, 0)
            yield ("can_shade", i, box0)
            if k:
                yield ("can_simul_shade", i, box0, (1, patt[0]))
            if nder >= self.max_derive or len(vals) >= self.max_live:
                continue
            bx = self.boxes(patt, shading)
            for c in bx:
                yield ("shade", i, c)
            for c in bx[:2]:
                yield ("add_point", i, c, "none")
                yield ("add_point", i, c, "east")
            for c in bx[:1]:
                yield ("add_increase", i, c)
                yield ("add_decrease", i, c)
            if k:
                yield ("sub_mesh_pattern", i, tuple(range(k - 1)))
                yield ("sub_mesh_pattern", i, (0,))
            for t in (1, 2, 3):
                yield ("rotate_live", i, t)
            for name in ("reverse_live", "complement_live", "inverse_live"):
                yield (name, i)

    # ---- executing one operation ----
    def apply(self, op, live):
        name, i = op[0], op[1]
        o = live[i]
        dirs = dict(self.lib.dirs)
        if name == "rotate":
            o.rotate(op[2])
        elif name in ("reverse", "complement", "inverse", "all_syms", "shadable_boxes"):
            getattr(o, name)()
        elif name == "hash":
            hash(o)
        elif name == "eq":
            o == self.lib.MeshPatt(self.lib.Perm(_value(o)[0]), _value(o)[1])   # noqa
        elif name == "can_shade":
            o.can_shade(op[2])
        elif name == "can_simul_shade":
            o.can_simul_shade(op[2], op[3])
        elif name == "shade":
            live.append(o.shade(op[2]))
        elif name == "add_point":
            live.append(o.add_point(op[2], dirs[op[3]]))
        elif name == "add_increase":
            live.append(o.add_increase(op[2]))
        elif name == "add_decrease":
            live.append(o.add_decrease(op[2]))
        elif name == "sub_mesh_pattern":
            live.append(o.sub_mesh_pattern(op[2]))
        elif name == "rotate_live":
            live.append(o.rotate(op[2]))
        elif name in ("reverse_live", "complement_live", "inverse_live"):
            live.append(getattr(o, name[:-5])())
        else:
            raise ValueError("unknown operation %r" % (op,))

    # ---- observers ----
    def observe(self, o):
        patt, sh = _value(o)
        k = len(patt)
        cells = R.all_cells(k)
        obs = {}
        for c in cells:
            obs["can_shade %r" % (c,)] = X.norm_result(o.can_shade(c))
        for a in cells:
            for b in ((a[0] + 1, a[1]), (a[0], a[1] + 1)):
                if b[0] <= k and b[1] <= k:
                    obs["can_simul_shade %r %r" % (a, b)] = X.norm_result(o.can_simul_shade(a, b))
        obs["shadable_boxes"] = X.norm_result(o.shadable_boxes())
        for t in (1, 2, 3, -1):
            obs["rotate %d" % t] = list(_value(o.rotate(t)))
        obs["hash"] = hash(o)
        return obs

    def oracle(self, live, glob=None):
        """Compare every live object with a freshly constructed equal pattern.  An object's
        answers are a function of (its value, its hidden state, the global state); a combination
        that was already compared is not compared again (unless always_check)."""
        self.oracle_runs += 1
        out = []
        lib = self.lib
        for i, o in enumerate(live):
            try:
                patt, sh = _value(o)
                key = ((patt, sh), _hidden(o), glob)
                if not self.always_check:
                    if key in self.verified:
                        continue
                    self.verified.add(key)
                fresh = lib.MeshPatt(lib.Perm(patt), list(sh))
                mine = self.observe(o)
                ref = None if self.always_check else self.fresh_obs.get((key[0], glob))
                if ref is None:
                    ref = self.fresh_obs[(key[0], glob)] = self.observe(fresh)
                eq = (o == fresh, fresh == o)
            except Exception as exc:  # noqa
                out.append({"live object": i, "exception": repr(exc)})
                continue
            if eq != (True, True):
                out.append({"live object": i, "value": [list(patt), list(sh)],
                            "== with a freshly constructed equal pattern": list(eq)})
            diff = [k_ for k_ in ref if mine.get(k_) != ref[k_]]
            shading = set(sh)
            k = len(patt)
            unsound = []
            for key, val in mine.items():          # licences of the live object must be sound
                if not key.startswith("can_") or not (isinstance(val, list) and val[1]):
                    continue
                cs = [tuple(int(v) for v in part_.strip("() ").split(","))
                      for part_ in key.split(" ", 1)[1].replace(") (", ")|(").split("|")]
                if len(cs) == 1:
                    ok = X.ref_lemma_points(patt, shading, cs[0]) or cs[0] in shading
                else:
                    ok = X.ref_simul_points(patt, shading, cs[0], cs[1])
                if ok:
                    continue
                if patt in RICH and len(patt) < 6:
                    sem = sem_of(patt)
                    shm = X.mask_of(k, shading)
                    before, after = sem.contain(shm), sem.contain(shm | X.mask_of(k, cs))
                    if before != after:
                        unsound.append({"query": key, "answer": val,
                                        "contains the pattern but not the shaded one":
                                            list(TEXTS[X.first_bit(before ^ after)])})
            if diff or unsound:
                out.append({"live object": i, "value": [list(patt), [list(c) for c in sh]],
                            "differs from a freshly constructed equal pattern in": diff[:6],
                            "live": {d: mine.get(d) for d in diff[:3]},
                            "fresh": {d: ref[d] for d in diff[:3]},
                            "unsound licences": unsound[:3],
                            "hidden state": repr(_hidden(o))[:300]})
        return out

    def build(self, hist):
        lib = self.lib
        reset_library_state(lib)
        live = [lib.MeshPatt(lib.Perm(self.start[0]), list(self.start[1]))]
        viols = []
        last = len(hist) - 1
        for hi, op in enumerate(hist):
            try:
                self.apply(op, live)
            except Exception as exc:  # noqa
                if hi == last:
                    viols.append({"op": list(op), "exception": repr(exc)})
        glob = tuple(repr((name, v.cache_info().currsize if hasattr(v, "cache_info")
                           else X.norm_result(v))) for name, v in _containers(lib))
        canon = (tuple(_value(o) for o in live), tuple(_hidden(o) for o in live), glob)
        derive = bool(hist) and hist[-1][0] in DERIVE_OPS
        if self.always_check or derive or canon not in self.checked:
            self.checked.add(canon)
            viols += self.oracle(live, glob)
        return canon, viols


DERIVED_POOL = [
    ((), ()), ((0,), ()), ((0, 1), ()), ((1, 0), ()),
    ((0,), ((0, 1),)), ((0, 1), ((0, 0), (2, 1))), ((1, 0), ((1, 1),)), ((), ((0, 0),)),
]


def shard_derived(shard):
    from ..explore import bfs
    start, depth, max_derive, max_live, all_boxes, max_states = shard
    lib = Lib()
    part = Partial()
    model = DerivedModel(lib, start, depth, max_derive, max_live, all_boxes)

    def on_violation(hist, v):
        if part.nviol < part.MAXV:
            part.violation("derived", {"start": [list(start[0]), [list(c) for c in start[1]]],
                                       "history": [list(op) for op in hist]}, v)
        else:
            part.nviol += 1

    st = bfs([()], None, model.build, depth, on_violation, enabled=model.enabled, max_states=max_states)
    part.add(st.transitions, model.oracle_runs)
    part.bump("derived_states", st.states)
    part.bump("derived_transitions", st.transitions)
    part.bump("derived_oracle_runs", model.oracle_runs)
    if st.sample_histories:
        part.sample({"derived: start": start, "history": st.sample_histories[-1]}, cap=1)
    return part, (st.states, st.transitions, st.depth_completed, getattr(st, "capped", False))


# --------------------------------------------------------------------------------------------
# universes and shards
# --------------------------------------------------------------------------------------------

def by_size(masks):
    return sorted(masks, key=lambda m: (bin(m).count("1"), m))


def all_masks(k):
    return by_size(range(1 << ((k + 1) ** 2)))


def sparse_dense(k, lo, hi):
    """Shadings with <= lo or >= hi cells."""
    nc = (k + 1) ** 2
    full = (1 << nc) - 1
    out = set()
    cells = R.all_cells(k)
    for r in range(0, lo + 1):
        for sub in itertools.combinations(cells, r):
            out.add(X.mask_of(k, sub))
    for r in range(0, nc - hi + 1):
        for sub in itertools.combinations(cells, r):
            out.add(full ^ X.mask_of(k, sub))
    return out


def row_col_shadings(k):
    """All shadings made of full columns and full rows (the bivincular ones)."""
    out = set()
    rng = range(k + 1)
    for cols in range(1 << (k + 1)):
        for rows in range(1 << (k + 1)):
            cs = [(x, y) for x in rng for y in rng if cols >> x & 1 or rows >> y & 1]
            out.add(X.mask_of(k, cs))
    return out


# patterns that occur in the code base (bisc/perm_properties.py, enumeration_strategies)
CODEBASE = [
    ((2, 1, 0), [(1, 0), (1, 1), (2, 2)]),
    ((0, 1, 2), [(0, 0), (1, 1), (2, 2), (3, 3)]),
    ((0, 1, 2), [(0, 3), (1, 2), (2, 1), (3, 0)]),
    ((0, 1, 2), [(2, 1), (3, 0), (3, 1), (3, 2), (3, 3)]),
    ((1, 2, 0), [(2, 2), (3, 0), (3, 2), (3, 3)]),
    ((0, 2, 1), [(2, 3), (3, 0), (3, 3)]),
    ((1, 0, 2), [(1, 2), (2, 2), (2, 3)]),
    ((1, 0, 3, 2), [(2, 2)]),
    ((1, 3, 0, 2), [(2, 2)]),
    ((2, 0, 3, 1), [(2, 2)]),
    ((0, 3, 1, 2), [(3, 2), (3, 0), (4, 2), (1, 0), (0, 3), (1, 2), (0, 4), (0, 2)]),
    ((3, 2, 1, 0), [(3, 2), (1, 3), (4, 2), (0, 3), (1, 2), (4, 3)]),
]


def family(k, lo, hi, rowcol=True):
    per_patt = {}
    common = sparse_dense(k, lo, hi)
    if rowcol:
        common |= row_col_shadings(k)
    for patt in R.perms(k):
        s = set(common)
        for cp, csh in CODEBASE:
            if len(cp) == k:
                # the pattern and its images keep their shading shape under every underlying perm
                s.add(X.mask_of(k, csh))
        per_patt[patt] = by_size(s)
    return per_patt


def scale_perms(n):
    """Structured permutations of length n: identity, reverse, identity with the first / the last
    adjacent transposition, cyclic shift, layered with layers of size 2, i -> k*i mod (n+1) for the
    smallest k >= 2 coprime to n+1, 'middle value first, then decreasing'."""
    import math
    ident = tuple(range(n))
    k = next(k for k in range(2, n + 1) if math.gcd(k, n + 1) == 1)
    cands = [ident, ident[::-1], (1, 0) + ident[2:], ident[:-2] + (n - 1, n - 2), ident[1:] + (0,),
             tuple((i ^ 1) if (i ^ 1) < n else i for i in range(n)),
             tuple((k * (i + 1)) % (n + 1) - 1 for i in range(n)),
             (n // 2,) + tuple(v for v in range(n - 1, -1, -1) if v != n // 2)]
    out = []
    for c in cands:
        assert R.is_perm(c), c
        if c not in out:
            out.append(c)
    return out


def ring_pairs(n):
    """Shadings {a, b}: a in the two outermost rings of the (n+1)x(n+1) grid, b any other box."""
    cells = R.all_cells(n)
    ring = [c for c in cells if min(c) <= 1 or max(c) >= n - 1]
    out = set()
    for a in ring:
        for b in cells:
            if a != b:
                out.add(X.mask_of(n, (a, b)))
    return by_size(out)


def make_shards(per_patt, cfgname, per):
    shards = []
    for patt in sorted(per_patt, key=lambda q: (len(q), q)):
        masks = per_patt[patt]
        for lo in range(0, len(masks), per):
            shards.append((patt, masks[lo:lo + per], cfgname))
    return shards


CFG = {}


def shard_units(shard):
    patt, masks, cfgname = shard
    cfg = CFG[cfgname]
    if not (cfg["subs"] - {"derived"}):
        return Partial()
    lib = Lib()
    part = Partial()
    prev = masks[0]
    for m in masks:
        k = len(patt)
        eval_unit(part, lib, patt, m, cfg, warm=sorted(X.cells_of(k, prev)))
        prev = m
    part.bump("units:" + cfgname, len(masks))
    return part


# --------------------------------------------------------------------------------------------

def run(ctx, only=None):
    subs = frozenset(ALL_SUBS if only is None else [s for s in ALL_SUBS if s in only])
    quick = ctx.quick
    N = 6 if quick else 7
    maxk = 5
    ctx.rule = ("one evaluation = one library query (can_shade / can_simul_shade / shadable_boxes / "
                "add_point / add_increase / add_decrease / shade / is_shaded / is_pointfree / ... / "
                "ascii_plot) on one mesh pattern, each (pattern, argument) once; non-trivial = lemma "
                "queries answered with a non-empty list (so a shading was actually licensed and "
                "compared on S<=N), tables with >= 1 entry, insertions whose reference set is a "
                "non-empty proper subset of the containing set, shade calls adding a new cell, "
                "multi-cell rectangles, plots of shaded patterns of length >= 1")
    ctx.assumptions = [
        "reference containment: mc/refmodel.py occurrences + cell_of, grouped into occupancy tables (mc/ref_c18.py)",
        "'does not change the set of containing permutations' is decided on S<=%d only" % N,
        "for patterns of length k = 5, 6 it is decided on the extensions of the pattern by <= 2 points "
        "(all of S<=k+2 that contain it): enough to refute a licence whenever one entry in the box plus "
        "one further entry elsewhere witnesses the loss; witnesses needing >= 3 extra entries are not seen",
        "scale family (lengths 7-9): a licence is accepted without search when the shading lemma / "
        "simultaneous shading lemma, re-stated on the box grid in mc/ref_c18.py, grant it (theorems; the "
        "re-statement is itself validated against the containment oracle on every smaller universe)",
        "add_point on a shaded cell (documented assert) is outside the property and not called",
    ]
    build_tables(ctx, N, maxk)
    selftest_tables()
    selftest_local()
    ctx.section("tables", texts=len(TEXTS), classical_patterns=len(RICH),
                selftest="tables == definitions for all of Mesh<=2 on S<=4; extension tables == global tables")

    small = {patt: all_masks(len(patt)) for k in range(0, 3) for patt in R.perms(k)}
    CFG["mesh<=2"] = {"subs": subs, "pairs": "all", "cell_sizes": (1, 2, 3), "N": N, "maxk": maxk,
                      "kw": True, "validate_ref": True}
    shards = make_shards(small, "mesh<=2", 8)
    fam3 = family(3, 2, 14)
    CFG["family3"] = {"subs": subs - {"fresh"} if quick else subs,
                      "pairs": "adjacent" if quick else "all", "cell_sizes": (1, 2),
                      "N": N, "maxk": maxk, "validate_ref": True}
    shards += make_shards(fam3, "family3", 16)
    bounds = {
        "texts": "S<=%d (%d permutations)" % (N, len(TEXTS)),
        "mesh<=2": "all %d mesh patterns of length <= 2; all cells; all ordered pairs of cells (incl. "
                   "equal and non-adjacent); 5 directions positional and by keyword + default "
                   "argument; shade with <=2 cells; all rectangles; cell sizes 1,2,3 + default; fresh: every "
                   "result holding a mutable container (can_shade on all cells, can_simul_shade and "
                   "can_shade2 on both orders of all adjacent pairs, shadable_boxes, non_pointless_boxes; "
                   "add_point/add_increase/add_decrease/shade results are inspected too) is damaged in "
                   "place at every nesting level (append a sentinel, then clear) and asked again on the "
                   "same object, a new equal object and through the alias"
                   % sum(len(v) for v in small.values()),
        "family3": "%d patterns of length 3: every shading with <=2 or >=14 cells, every union of full "
                   "rows/columns, code-base shadings; same queries (%s; directions positional), cell "
                   "sizes 1,2" % (sum(len(v) for v in fam3.values()),
                                  "both orders of every adjacent pair" if quick else "all ordered pairs"),
    }
    if not quick:
        lem = frozenset(s for s in subs if s in ("lemma1", "simul"))
        if lem:
            done = {p_: set(v) for p_, v in fam3.items()}
            rest = {p_: [m for m in all_masks(3) if m not in done[p_]] for p_ in R.perms(3)}
            CFG["all3"] = {"subs": lem, "pairs": "adjacent", "cell_sizes": (), "N": N, "maxk": maxk,
                           "validate_ref": True}
            shards += make_shards(rest, "all3", 512)
            bounds["all3"] = ("the remaining %d mesh patterns of length 3 (so ALL 6*2^16): can_shade on "
                              "all cells, can_simul_shade on both orders of all adjacent pairs" % sum(len(v) for v in rest.values()))
        fam3b = {p_: [m for m in by_size(sparse_dense(3, 3, 13)) if m not in set(fam3[p_])]
                 for p_ in R.perms(3)}
        ins = frozenset(s for s in subs if s in ("table", "addpoint", "addpair", "lookups", "render"))
        if ins:
            CFG["family3b"] = {"subs": ins, "pairs": "adjacent", "cell_sizes": (1, 2), "N": N, "maxk": maxk}
            shards += make_shards(fam3b, "family3b", 64)
            bounds["family3b"] = ("%d more patterns of length 3 (3 or 13 shaded cells): shadable_boxes "
                                  "(checked against the per-cell tests), insertions, lookups, rendering" % sum(len(v) for v in fam3b.values()))
        fam4 = family(4, 1, 24, rowcol=False)
        CFG["family4"] = {"subs": frozenset(s for s in subs if s not in ("addpair", "fresh")),
                          "pairs": "adjacent",
                          "cell_sizes": (1,), "N": N, "maxk": maxk}
        shards += make_shards(fam4, "family4", 8)
        bounds["family4"] = ("%d patterns of length 4: <=1 or >=24 shaded cells + code-base shadings; "
                             "adjacent pairs only; no add_increase/decrease (needs patterns of length 6)"
                             % sum(len(v) for v in fam4.values()))
    # long patterns (grids wider than 5x5), sparse shadings, every underlying permutation: the
    # lemma's side conditions each speak about ONE shaded box and its partner across a line, so
    # shadings with <= 2 boxes exercise every side condition alone and every pair of them, at every
    # position of the grid (incl. the far border) and in all four rotated frames.  Texts = all
    # extensions of the pattern by <= 2 points: one entry in the newly shaded box + one blocker.
    lem3 = frozenset(s for s in subs if s in ("lemma1", "simul", "table"))
    lem1 = frozenset(s for s in subs if s == "lemma1")
    if lem3:
        m5 = by_size(sparse_dense(5, 1, 37))
        one5 = {p_: m5 for p_ in R.perms(5)}
        CFG["len5<=1"] = {"subs": lem3, "pairs": "adjacent", "cell_sizes": (), "N": 7, "maxk": maxk,
                          "local": 2, "validate_ref": True}
        shards += make_shards(one5, "len5<=1", 37)
        bounds["len5<=1"] = ("all 120 x %d mesh patterns of length 5 with <= 1 shaded box: can_shade on all "
                             "36 cells, can_simul_shade on both orders of all adjacent pairs, "
                             "shadable_boxes; soundness on every extension of the pattern by <= 2 points "
                             "(= all of S<=7 containing it)" % len(one5[(0, 1, 2, 3, 4)]))
    two_subs = lem1 if quick else lem3
    if two_subs:
        m5 = [m for m in by_size(sparse_dense(5, 2, 37)) if bin(m).count("1") == 2]
        two5 = {p_: m5 for p_ in R.perms(5)}
        CFG["len5=2"] = {"subs": two_subs, "pairs": "adjacent", "cell_sizes": (), "N": 7, "maxk": maxk,
                         "local": 2, "cells": "point-adjacent" if quick else "all"}
        shards += make_shards(two5, "len5=2", 210)
        bounds["len5=2"] = ("all 120 x %d mesh patterns of length 5 with exactly 2 shaded boxes: %s; same "
                            "texts" % (len(two5[(0, 1, 2, 3, 4)]),
                                       "can_shade on every cell with a pattern point on a corner (16-20 of the 36)" if quick else
                                       "can_shade, can_simul_shade (adjacent pairs), shadable_boxes"))
    if not quick and lem3:
        m6 = by_size(sparse_dense(6, 1, 50))
        one6 = {p_: m6 for p_ in R.perms(6)}
        CFG["len6<=1"] = {"subs": lem3, "pairs": "adjacent", "cell_sizes": (), "N": 8, "maxk": maxk,
                          "local": 2}
        shards += make_shards(one6, "len6<=1", 50)
        bounds["len6<=1"] = ("all 720 x %d mesh patterns of length 6 with <= 1 shaded box: can_shade on all "
                             "49 cells, can_simul_shade on adjacent pairs, shadable_boxes; soundness on "
                             "every extension by <= 2 points (= all of S<=8 containing it)"
                             % len(one6[(0, 1, 2, 3, 4, 5)]))
    # "scale" family: lengths whose derived quantities cross thresholds of the runtime (a rank()
    # of (n+1)^2 bits exceeds the 53-bit float mantissa from n = 7 on, 64 bits from n = 8 on;
    # set members >= 8; ...), structured underlying permutations, every shading made of one box in
    # the two outermost rings of the grid (first/last two columns or rows) and one arbitrary
    # other box, plus every shading with <= 1 box
    if lem3:
        lengths = (7, 8) if quick else (7, 8, 9)
        for n in lengths:
            perms_n = scale_perms(n)
            one = by_size(sparse_dense(n, 1, (n + 1) ** 2 + 1))
            two = ring_pairs(n)
            name1, name2 = "scale%d<=1" % n, "scale%d=2" % n
            common = {"pairs": "point-dominoes", "orders": "both", "cell_sizes": (), "N": n + 2,
                      "maxk": maxk, "local": 2, "ref_first": True, "queries": "point",
                      "cells": "point-adjacent"}
            CFG[name1] = dict(common, subs=lem3)
            CFG[name2] = dict(common, subs=lem3 if not quick else frozenset(lem3 - {"table"}),
                              orders="both" if not quick else "lower-first")
            shards += make_shards({p_: one for p_ in perms_n}, name1, 41)
            shards += make_shards({p_: two for p_ in perms_n}, name2, 237 if quick else 120)
            bounds["scale%d" % n] = (
                "length %d, %d structured permutations %s; shadings: all %d with <= 1 box (can_shade on "
                "every cell at a pattern point, can_simul_shade on both orders of every domino with a "
                "pattern point mid-side, shadable_boxes) and all %d made of one box in the two outermost "
                "rings + one other box (%s); a licence granted by the shading lemmas re-stated on the "
                "box grid is sound by the theorem, any other licence is searched for a containment "
                "witness among all extensions of the pattern by <= 2 points (S<=%d)"
                % (n, len(perms_n), [list(q) for q in perms_n], len(one), len(two),
                   "same queries" if not quick else
                   "can_shade, can_simul_shade lower-left cell first; no table", n + 2))
    ctx.bounds.update(bounds)
    e0 = ctx.evals
    unit_subs = subs - {"derived"}
    if unit_subs:
        ctx.pmap(shard_units, shards)
    ctx.section("units", shards=len(shards), evaluations=ctx.evals - e0,
                **{k_: v for k_, v in ctx.counters.items() if not k_.startswith("sig:")})
    if "derived" in subs:
        take_baseline(Lib())
        depth, max_derive, max_live = (3, 2, 3) if quick else (4, 2, 3)
        all_boxes = not quick
        max_states = 4000 if quick else 60000
        dshards = [(st, depth, max_derive, max_live, all_boxes, max_states) for st in DERIVED_POOL]
        res = ctx.pmap(shard_derived, dshards)
        ctx.states = sum(r[0] for r in res)
        ctx.transitions = sum(r[1] for r in res)
        ctx.traces = ctx.transitions
        if any(r[3] for r in res):
            ctx.cap("derived: state cap reached (hidden state multiplies the states)")
        ctx.bounds["derived"] = {
            "start patterns": [[list(a), [list(c) for c in b]] for a, b in DERIVED_POOL],
            "depth": depth, "derive operations per history": max_derive, "live objects": max_live,
            "boxes for derive operations": "every unshaded box (length <= 2), else first/last/anti-diagonal"
                                           if all_boxes else "first, last and one anti-diagonal unshaded box",
            "use operations": "rotate(1,2,3,-1), reverse, complement, inverse, all_syms, shadable_boxes, hash, "
                              "==, can_shade and can_simul_shade at the first point",
            "derive operations": list(DERIVE_OPS),
            "observers compared with a freshly constructed equal pattern":
                "can_shade on all cells, can_simul_shade on all adjacent pairs, shadable_boxes, "
                "rotate(1,2,3,-1), ==, hash; licences also against the reference lemma / containment"}
        ctx.section("derived", states=ctx.states, transitions=ctx.transitions,
                    oracle_runs=ctx.counters.get("derived_oracle_runs"))


# --------------------------------------------------------------------------------------------

class _Big(Partial):
    MAXV = 10 ** 6


def _strip(case):
    return {k_: v for k_, v in case.items() if k_ != "warm"}


def replay(ctx, rec):
    from ..core import jsonable
    case = rec["case"]
    sub = rec["sub"]
    if sub == "derived":
        lib = Lib()
        if not TEXTS:
            build_tables(None, 6, 5)
        if _BASELINE is None:
            take_baseline(lib)
        start = (tuple(case["start"][0]), tuple(tuple(c) for c in case["start"][1]))
        hist = tuple(_tuplize(op) for op in case["history"])
        model = DerivedModel(lib, start, len(hist), 99, 99, True, always_check=True)
        for i in range(0, len(hist) + 1):
            _, viols = model.build(hist[:i])
            if viols:
                ctx.violation("derived", case, viols[0])
                break
        return
    patt = tuple(case["patt"])
    k = len(patt)
    N = int(case.get("N", 6))
    local = case.get("local")
    if not local and (not TEXTS or len(TEXTS) != len(X.texts_upto(N))):
        build_tables(None, N, min(5, max(k + 2, 3)))
    family_of = {"addpoint_dir": "addpoint", "lemma1_point": "lemma1", "simul_point": "simul", "table_key": "table",
                 "table_complete": "table"}
    subs = frozenset([family_of.get(sub, sub)]) if sub != "construct" else frozenset(ALL_SUBS)
    cfg = {"subs": subs, "pairs": "all", "cell_sizes": (1, 2, 3), "N": N, "maxk": 5, "kw": True}
    if local:
        cfg.update(local=int(local), pairs="adjacent")
    if case.get("scale"):
        cfg.update(ref_first=True, queries="point", cells="point-adjacent", pairs="point-dominoes",
                   orders="both")
    if sub in ("render",) and isinstance(case.get("cell_size"), int):
        cfg["cell_sizes"] = (case["cell_size"],)
    lib = Lib()
    shm = X.mask_of(k, [tuple(c) for c in case["shading"]])
    target = jsonable(_strip(case))

    def attempt(warm):
        if warm is not None:
            eval_unit(Partial(), lib, patt, X.mask_of(k, [tuple(c) for c in warm]), cfg)
        part = _Big()
        eval_unit(part, lib, patt, shm, cfg)
        for v in part.viols:
            if v["sub"] == sub and jsonable(_strip(v["case"])) == target:
                return v
        return None

    # first with the warm-up unit in front (state kept between calls shows up again, and running
    # the unit alone first could itself prime such state), then alone
    v = attempt(case.get("warm", case["shading"]))
    if v is None:
        v = attempt(None)
    if v is not None:
        ctx.violation(sub, case, v["detail"])
