"""C19 - enumeration strategies are reported exactly when their stated hypotheses hold.

E1 (bounded exhaustive enumeration of bases against the restated hypotheses, mc/ref_c19.py).

Sub-checks (names usable with --only):
  small : every basis of Bases(3,4) (all sets of <= 3 patterns of length 1..4; closed under the eight
          symmetries): each of the nine fast strategies' applies() (called twice on the same object,
          and once more after the same classes were instantiated and used for the next basis)
          against the reference; the insertion-encoding strategy also against the library's own class
          test on the eight images; find_strategies(b, False) for four orders / repetitions /
          containers.
  ext   : bases outside Bases(3,4) built around the required patterns of each core strategy:
          ext1 = every symmetric image of  N_S + {e}            (e of length 1..5, thorough 1..6)
          ext2 = N_S + {e1, e2}  (e1 < e2 of length 1..4; thorough: every symmetric image)
          drop = (N_S minus one required pattern) + {e}         (e of length 1..4, thorough 1..5;
                 in the quick tier all of these already occur in small/ext2)
          observers: applies() once per strategy, class test on the eight images, find_strategies
          in two input orders.
  blocks: size-dependent shape helpers: N_S + {e} with ONE long block-structured extension e, |e| <= 12:
          e = x or 1 (+) x, x a sum / skew sum (both bracketings) of at most 2 (thorough: 3) monotone
          runs of length 1..10; quick: identity image; thorough: every symmetric image for <= 2 runs,
          identity image for 3 runs.  Observer: find_strategies(b, False) against the reference.
  abort : injected aborts as an explored environment deviation (bound 1).  History: find_strategies(A);
          op(X) with an InjectedAbort (BaseException, stands for Ctrl-C or any exception surfacing in
          the library) raised at the k-th function entry / generator resumption inside
          permuta/enumeration_strategies/*.py, permuta/permutils/symmetry.py or a direct callee, for
          EVERY k of the fault-free run; then read-back find_strategies on X, A, X and on A, X, A.  Every
          completed answer must equal the reference (a call that was cut short must not poison later
          calls).  Ordered pairs (A, X) of bases with different reference reports; quick: 3 bases,
          op = find_strategies; thorough: 5 bases, op = find_strategies and each fast strategy's
          applies().
  mixed : the slow strategy on bases mixing short and long patterns: one pattern of length 3..4 + one of
          length 5 (thorough: also two short + one long), every orbit classified with the reference
          (special-simples families of mc/ref_c16.py); the library runs on the orbits where a sub-basis
          alone gives a different answer from the whole basis (+ controls); observers of `slow` plus an
          independent verdict (special simples infinite => not reported; special simples finite and
          pin words extinct before length 16 => reported).
  slow  : the slow strategy.  find_strategies(b, True) == fast report + slow verdict,
          find_strategies(b, False) == find_strategies(b, True) minus the slow strategies, the slow
          verdict == PinWords.has_finite_simples(b) (the class test), FinitelyManySimplesStrategy(b)
          .applies() on its own, Schmerl-Trotter refutation (no simple avoiders at two consecutive
          lengths k, k+1 <= 8 => finitely many simples => must be reported), and equal verdicts
          inside every symmetry orbit.
          quick: all of Bases(2,4) (orbit-closed) + one representative per orbit of the three-element
          bases of Bases(3,4) with at most one pattern of length 4;
          thorough: all of Bases(3,4) (class test and separate applies() on one representative per
          orbit, every other image through find_strategies and orbit equality) + N_S + {e}, |e| <= 5.

Known finding (open): a basis containing the length-1 permutation makes four core strategies strip
it to the empty permutation and then trip `assert len(perm) > 0` (smallest witness
find_strategies([Perm((0,))])).  Deviation model: AssertionError from RdCdCu/RdCu/Rd2134/Ru2143
.applies() or from find_strategies, on a basis containing Perm((0,)), and nothing else.
"""
from __future__ import annotations

import importlib
import itertools
import os
import time

from .. import refmodel as R
from .. import ref_c19 as F
from .. import ref_c16 as G16
from ..core import Partial

PROPERTY = "C19"
LEVEL = "exploration"

SIG = "C19|find_strategies,CoreStrategy.applies|basis-contains-Perm((0,))"

_LIB = None


def _lib():
    global _LIB
    if _LIB is None:
        from permuta import Perm
        es = importlib.import_module("permuta.enumeration_strategies")
        cs = importlib.import_module("permuta.enumeration_strategies.core_strategies")
        ie = importlib.import_module("permuta.enumeration_strategies.insertion_encodable")
        fm = importlib.import_module("permuta.enumeration_strategies.finitely_many_simples")
        from permuta.permutils.insertion_encodable import InsertionEncodablePerms
        from permuta.permutils.pin_words import PinWords
        classes = {n: getattr(cs, n) for n in F.CORE}
        classes[F.INSENC] = ie.InsertionEncodingStrategy
        classes[F.FMS] = fm.FinitelyManySimplesStrategy
        _LIB = (Perm, classes, es.find_strategies, InsertionEncodablePerms, PinWords)
    return _LIB


def _call(fn):
    """('ok', value) or ('exc', exception type name, repr)."""
    try:
        return ("ok", fn())
    except Exception as exc:  # noqa  (README rule 6: library exceptions are observations)
        return ("exc", type(exc).__name__, repr(exc)[:300])


def _names(lst):
    return [type(s).__name__ for s in lst]


def _key(basis):
    # simplest first; the degenerate bases containing the length-1 permutation (class = {empty
    # permutation}, known finding) after the others
    return ((0,) in basis, len(basis), sum(len(p) for p in basis), basis)


def canon(ps):
    return tuple(sorted(set(map(tuple, ps))))


# --------------------------------------------------------------------------------------------
# the observers for ONE basis
# --------------------------------------------------------------------------------------------

def variants(Perm, basis, nvar):
    """Re-orderings / repetitions / containers of the same set (deterministic)."""
    B = [Perm(p) for p in basis]
    out = [("sorted-list", list(B))]
    if nvar >= 2:
        out.append(("reversed-tuple+repeat", tuple(reversed(B)) + (B[0],)))
    if nvar >= 3:
        out.append(("frozenset-fresh", frozenset(Perm(p) for p in basis)))
    if nvar >= 4:
        rot = B[1:] + B[:1]
        out.append(("rotated-list-doubled", [x for p in rot for x in (p, Perm(tuple(p)))]))
    return out


def check_fast(part, basis, nvar, twice=True, objs=None):
    """All fast observers on one basis (sorted tuple of tuples).  Returns True when the case is
    non-trivial (some fast strategy applies and some does not, by the reference)."""
    Perm, classes, find, IEP, _ = _lib()
    case = {"basis": basis, "kind": "fast", "nvar": nvar, "twice": twice}
    exp = F.expected(basis)
    has1 = (0,) in basis
    known = []
    B = [Perm(p) for p in basis]
    for name in F.FAST:
        r = _call(lambda: classes[name](list(B)))
        if r[0] == "exc":
            part.violation("applies", case, {"strategy": name, "constructor": r})
            continue
        obj = r[1]
        if objs is not None:
            objs[name] = obj
        for rnd in ((1, 2) if twice else (1,)):
            r = _call(obj.applies)
            if r[0] == "exc":
                if r[1] == "AssertionError" and has1 and name in F.STRIP_TO_EMPTY:
                    known.append(name)
                else:
                    part.violation("applies", case, {"strategy": name, "call": rnd, "raised": r,
                                                     "expected": exp[name]})
                break
            if exp[name] == F.UNDEF:
                continue
            if r[1] != exp[name] or not isinstance(r[1], bool):
                part.violation("applies" if rnd == 1 else "idempotent", case,
                               {"strategy": name, "call": rnd, "got": r[1], "expected": exp[name]})
                break
    # the insertion-encoding strategy against the library's own class test, on the eight images
    r = _call(lambda: any(IEP.is_insertion_encodable([Perm(p) for p in sorted(img)])
                          for img in F.sym_images(basis)))
    if r[0] == "exc" or r[1] != exp[F.INSENC]:
        part.violation("insenc-classtest", case, {"class_test_on_some_image": r,
                                                  "reference": exp[F.INSENC]})
    # find_strategies, quick search, in several orders / repetitions / containers
    for vname, arg in variants(Perm, basis, nvar):
        r = _call(lambda: _names(find(arg, False)))
        if r[0] == "exc":
            if r[1] == "AssertionError" and has1:
                known.append("find_strategies")
            else:
                part.violation("find-fast", case, {"variant": vname, "raised": r})
            continue
        names = r[1]
        part.outcomes.add(tuple(sorted(names)))
        bad = [n for n in names if n not in F.FAST]
        wrong = [n for n in F.FAST if exp[n] != F.UNDEF and (n in names) != exp[n]]
        if bad or wrong:
            part.violation("find-fast" if vname == "sorted-list" else "invariance", case,
                           {"variant": vname, "reported": names, "not_fast": bad,
                            "wrong_membership": wrong,
                            "expected": sorted(n for n in F.FAST if exp[n] is True)})
    if known:
        part.violation("applies", case, {"AssertionError_in": sorted(set(known))}, sig=SIG)
    vals = [v for v in exp.values() if v != F.UNDEF]
    return (True in vals) and (False in vals)


def check_report(part, basis):
    """One observer only (cheap enough for long patterns): find_strategies(b, False) against the
    reference report of all nine fast strategies."""
    Perm, _, find, _, _ = _lib()
    case = {"basis": basis, "kind": "report"}
    exp = F.expected(basis)
    has1 = (0,) in basis
    B = [Perm(p) for p in basis]
    r = _call(lambda: _names(find(list(B), False)))
    if r[0] == "exc":
        if r[1] == "AssertionError" and has1:
            part.violation("report", case, {"AssertionError_in": "find_strategies"}, sig=SIG)
        else:
            part.violation("report", case, {"raised": r})
    else:
        names = r[1]
        part.outcomes.add(tuple(sorted(names)))
        bad = [n for n in names if n not in F.FAST]
        wrong = [n for n in F.FAST if exp[n] != F.UNDEF and (n in names) != exp[n]]
        if bad or wrong:
            part.violation("report", case, {"reported": names, "not_fast": bad,
                                            "wrong_membership": wrong,
                                            "expected": sorted(n for n in F.FAST if exp[n] is True)})
    vals = [v for v in exp.values() if v != F.UNDEF]
    return (True in vals) and (False in vals)


def block_perms(maxblocks, maxlen, maxblock):
    """Block-structured permutations: sums / skew sums (both bracketings) of at most `maxblocks`
    monotone runs (increasing or decreasing, each of length 1..maxblock), total length <= maxlen,
    and the same with a new minimum put in front (1 (+) x), still of length <= maxlen."""
    blocks = [tuple(range(n)) for n in range(1, maxblock + 1)] + \
             [tuple(range(n - 1, -1, -1)) for n in range(2, maxblock + 1)]
    out = {b for b in blocks if len(b) <= maxlen}
    level = set(out)
    for _ in range(maxblocks - 1):
        nxt = set()
        for t in level:
            for b in blocks:
                if len(t) + len(b) <= maxlen:
                    nxt.update((R.direct_sum(t, b), R.skew_sum(t, b),
                                R.direct_sum(b, t), R.skew_sum(b, t)))
        out |= nxt
        level = nxt
    out |= {R.direct_sum((0,), x) for x in out if len(x) + 1 <= maxlen}
    return sorted(out, key=lambda x: (len(x), x))


# ---- injected aborts (environment deviation, bound 1) --------------------------------------

class InjectedAbort(BaseException):
    """Stands for Ctrl-C / any exception surfacing inside the library while a call is running."""


_WATCH = None


def watched_files():
    """Source files whose frames (and whose direct callees' entries) are injection points."""
    global _WATCH
    if _WATCH is None:
        import sys
        _lib()
        _WATCH = frozenset(
            m.__file__ for n, m in list(sys.modules.items())
            if (n.startswith("permuta.enumeration_strategies") or n == "permuta.permutils.symmetry")
            and getattr(m, "__file__", None))
    return _WATCH


class Injector:
    """Global trace function: counts 'call' events (function entry, generator resumption) of frames
    of the watched files and of frames called directly from them; raises at the k-th one."""

    def __init__(self, k):
        self.k, self.n, self.fired = k, 0, False
        self.watch = watched_files()

    def __call__(self, frame, event, arg):
        if event != "call":
            return None
        if frame.f_code.co_filename not in self.watch:
            back = frame.f_back
            if back is None or back.f_code.co_filename not in self.watch:
                return None
        self.n += 1
        if self.n == self.k:
            self.fired = True
            raise InjectedAbort("injected at call event %d (%s)" % (self.k, frame.f_code.co_name))
        return None


ABORT_BASES = [F.NEEDED["RuCuCoreStrategy"], F.NEEDED["RdCdCoreStrategy"], ((0, 2, 1),),
               F.NEEDED["Rd2134CoreStrategy"], F.NEEDED["Ru2143CoreStrategy"]]


def _abort_op(op, B):
    _, classes, find, _, _ = _lib()
    if op == "find":
        return lambda: find(list(B), False)
    return lambda: classes[op](list(B)).applies()


def abort_execution(part, warm, basis, op, k, order):
    """History: find_strategies(warm) | op(basis) with an abort injected at the k-th injection
    point (k = 0: none) | read-back find_strategies on the two bases in the given order
    ('XAX' = aborted basis, other, aborted basis; 'AXA' the other way round).  Every completed
    answer is compared with the reference.  Returns (#injection points passed, fired?)."""
    import sys
    Perm, _, find, _, _ = _lib()
    case = {"kind": "abort", "warm": warm, "basis": basis, "op": op, "k": k, "order": order}
    A = [Perm(p) for p in warm]
    X = [Perm(p) for p in basis]
    expect = {"A": F.expected(warm), "X": F.expected(basis)}

    def observe(which, step):
        r = _call(lambda: _names(find(list(A if which == "A" else X), False)))
        exp = expect[which]
        if r[0] == "exc":
            part.violation("abort", case, {"step": step, "raised": r})
            return
        wrong = [n for n in F.FAST if exp[n] != F.UNDEF and (n in r[1]) != exp[n]]
        bad = [n for n in r[1] if n not in F.FAST]
        if wrong or bad:
            part.violation("abort", case, {"step": step, "basis": warm if which == "A" else basis,
                                           "reported": r[1], "wrong_membership": wrong + bad,
                                           "expected": sorted(n for n in F.FAST if exp[n] is True)})

    observe("A", "warm-up")
    fn = _abort_op(op, X)
    inj = Injector(k)
    old, oldhook = sys.gettrace(), sys.unraisablehook

    def hook(u):
        # an injection point that lies inside the finalisation of a generator: the interpreter
        # itself discards the exception ("Exception ignored in ..."); nothing to report
        if not isinstance(u.exc_value, InjectedAbort):
            oldhook(u)

    sys.unraisablehook = hook
    sys.settrace(inj)
    try:
        fn()
    except InjectedAbort:
        inj.fired = "aborted"
    except Exception as exc:  # noqa
        sys.settrace(old)
        part.violation("abort", case, {"step": "call under injection", "raised": repr(exc)[:300]})
    finally:
        sys.settrace(old)
        sys.unraisablehook = oldhook
    for i, which in enumerate(order):
        observe(which, "read-back %d (%s)" % (i + 1, "aborted call's basis" if which == "X" else "other basis"))
    return inj.n, inj.fired


def shard_abort(shard):
    warm, basis, op, order = shard
    t0 = time.process_time()
    part = Partial()
    scratch = Partial()
    n1, _ = abort_execution(scratch, warm, basis, op, 0, order)
    n2, _ = abort_execution(part, warm, basis, op, 0, order)     # steady state, fault-free
    part.add(1, 0)
    total = max(n1, n2)
    fired = 0
    for k in range(1, total + 1):
        _, f = abort_execution(part, warm, basis, op, k, order)
        fired += 1 if f == "aborted" else 0
        part.add(1, 1 if f == "aborted" else 0)
    part.bump("abort_injection_points", total)
    part.bump("abort_executions_with_fault", fired)
    if total:
        part.sample({"history": ["find_strategies(%s)" % (warm,), "%s(%s) aborted at call event k=1..%d"
                                 % (op, basis, total), "read-back order " + order]}, cap=1)
    return part, (total, fired, time.process_time() - t0)


def check_stale(part, prev_basis, prev_objs, then_basis):
    """Strategy objects built for prev_basis are asked again after the same classes were built
    and used for then_basis: an object answers for its own basis (no state shared between
    objects through the class or the module)."""
    exp = F.expected(prev_basis)
    has1 = (0,) in prev_basis
    case = {"basis": prev_basis, "then": then_basis, "kind": "stale"}
    for name, obj in prev_objs.items():
        r = _call(obj.applies)
        if r[0] == "exc":
            if not (r[1] == "AssertionError" and has1 and name in F.STRIP_TO_EMPTY):
                part.violation("stale-object", case, {"strategy": name, "raised": r})
        elif exp[name] != F.UNDEF and r[1] != exp[name]:
            part.violation("stale-object", case, {"strategy": name, "got": r[1],
                                                  "expected": exp[name]})


# simples of length 4..8 with the set of patterns (length <= 6) each contains; built once in the
# parent before forking (only when the slow sub-check runs)
SIMPLES = None


def build_simples():
    global SIMPLES
    if SIMPLES is not None:
        return
    out = []
    for n in range(4, 9):
        for p in R.perms(n):
            if not R.is_simple(p):
                continue
            sub = set()
            for k in range(1, min(6, n) + 1):
                for idx in itertools.combinations(range(n), k):
                    sub.add(R.std([p[i] for i in idx]))
            out.append((n, frozenset(sub)))
    SIMPLES = out


def simple_avoider_counts(basis):
    cnt = {n: 0 for n in range(4, 9)}
    bs = set(basis)
    for n, sub in SIMPLES:
        if not (bs & sub):
            cnt[n] += 1
    return cnt


def schmerl_trotter_finite(basis):
    """True when the class provably has finitely many simples: no simple avoider at two
    consecutive lengths k, k+1 (4 <= k <= 7).  (Every simple of length n >= 4 contains a simple of
    length n-1 or n-2, so a longer simple avoider would force one at length k or k+1.)"""
    if any(len(p) > 6 for p in basis):
        return False
    cnt = simple_avoider_counts(basis)
    return any(cnt[k] == 0 and cnt[k + 1] == 0 for k in range(4, 8))


def check_slow(part, basis, direct=True, separate=True):
    """Slow observers on one basis: find_strategies(b, True) and (b, False) always; with `separate`
    also FinitelyManySimplesStrategy(b).applies() on its own; with `direct` the verdict is compared
    with the class test PinWords.has_finite_simples(b).  Returns the slow verdict or None."""
    Perm, classes, find, _, PinWords = _lib()
    exp = F.expected(basis)
    has1 = (0,) in basis
    if has1:
        separate = True      # find_strategies raises before it reaches the slow strategy (finding)
    case = {"basis": basis, "kind": "slow", "direct": direct, "separate": separate}
    B = [Perm(p) for p in basis]
    full = _call(lambda: _names(find(list(B), True)))
    fast = _call(lambda: _names(find(list(B), False)))
    known = False
    for nm, r in (("find_strategies(b, True)", full), ("find_strategies(b, False)", fast)):
        if r[0] == "exc":
            if r[1] == "AssertionError" and has1:
                known = True
            else:
                part.violation("find-slow", case, {"call": nm, "raised": r})
    if known:
        part.violation("find-slow", case, {"AssertionError_in": "find_strategies"}, sig=SIG)
    verdict = None
    if separate:
        got = _call(lambda: classes[F.FMS](tuple(reversed(B))).applies())
        if got[0] == "exc" or not isinstance(got[1], bool):
            part.violation("fms-applies", case, {"applies": got})
        else:
            verdict = got[1]
    elif full[0] == "ok":
        verdict = F.FMS in full[1]
    if direct:
        d = _call(lambda: PinWords.has_finite_simples(list(B)))
        if d[0] == "exc" or (verdict is not None and d[1] != verdict):
            part.violation("fms-classtest", case, {"strategy_reported": verdict,
                                                   "has_finite_simples": d})
    if schmerl_trotter_finite(basis):
        part.bump("schmerl_trotter_forced")
        if verdict is False:
            part.violation("fms-schmerl-trotter", case,
                           {"strategy_reported": verdict,
                            "simple_avoiders_by_length": simple_avoider_counts(basis)})
    if full[0] == "ok":
        names = full[1]
        bad = [n for n in names if n not in F.ALL]
        wrong = [n for n in F.FAST if exp[n] != F.UNDEF and (n in names) != exp[n]]
        if verdict is not None and (F.FMS in names) != verdict:
            wrong.append(F.FMS)
        if bad or wrong:
            part.violation("find-slow", case, {"reported": names, "unknown": bad,
                                               "wrong_membership": wrong, "slow_verdict": verdict})
        if fast[0] == "ok" and sorted(set(fast[1])) != sorted(set(names) - set(F.SLOW)):
            part.violation("quick-vs-slow", case, {"long_running_True": names,
                                                   "long_running_False": fast[1]})
    return verdict


# ---- mixed lengths for the slow strategy ----------------------------------------------------
# Reference for "finitely many special simples" (alternations / wedge simples, Brignall-Ruskuc-
# Vatter) from mc/ref_c16.py: the 20 families' members of length 14 and their patterns of length
# <= 5 (self-checked there: nesting + stabilisation), so for bases of patterns of length <= 5:
# special simples finite <=> every one of the 20 long members contains a basis element.

MIX = {"ds": None}
PIN_HORIZON = 16


def build_mixed_reference():
    if MIX["ds"] is None:
        ok, msg, members = G16.family_selfcheck(5, 14, 2)
        if not ok:
            raise RuntimeError("special-simples reference self-check failed: " + msg)
        MIX["ds"] = [G16.downset(m, 5) for _kind, m in members]


def ref_special_finite(basis):
    return all(any(b in ds[len(b)] for b in basis) for ds in MIX["ds"])


def classify_mixed(basis):
    short = [b for b in basis if len(b) <= 4]
    long_ = [b for b in basis if len(b) >= 5]
    whole = ref_special_finite(basis)
    return whole, ref_special_finite(short), ref_special_finite(long_)


def check_mixed(part, basis):
    """Slow observers on a basis mixing short and long patterns against the independent verdict:
    special simples infinite => not reported; special simples finite and no pin word of length
    PIN_HORIZON avoids the basis (the pin permutations die out) => reported; where the reference is
    inconclusive (pin words alive at the horizon) the verdict is compared with the class test."""
    verdict = check_slow(part, basis, False, False)
    whole, short, long_ = classify_mixed(basis)
    case = {"basis": basis, "kind": "mixed"}
    if verdict is None:
        return verdict
    detail = {"strategy_reported": verdict, "special_simples_finite(whole basis)": whole,
              "special_simples_finite(short part alone)": short,
              "special_simples_finite(long part alone)": long_}
    if not whole:
        part.bump("mixed_ref_infinite_by_special_simples")
        if verdict is not False:
            part.violation("fms-mixed", case, detail)
        return verdict
    e = G16.pin_extinction_for_basis(basis, PIN_HORIZON)
    if e < PIN_HORIZON:
        part.bump("mixed_ref_finite")
        if verdict is not True:
            detail["pin_words_extinct_at_length"] = e
            part.violation("fms-mixed", case, detail)
        return verdict
    part.bump("mixed_ref_inconclusive_pin_alive_at_horizon")
    Perm, _, _, _, PinWords = _lib()
    d = _call(lambda: PinWords.has_finite_simples([Perm(p) for p in basis]))
    if d[0] == "exc" or d[1] != verdict:
        part.violation("fms-classtest", case, {"strategy_reported": verdict,
                                               "has_finite_simples": d})
    return verdict


def shard_mixed(shard):
    lo, hi, work = shard
    t0 = time.process_time()
    os.makedirs(work, exist_ok=True)
    os.chdir(work)
    part = Partial()
    for b, sel in POOLS["mixed"][lo:hi]:
        v = check_mixed(part, b)
        part.add(1, 1 if sel else 0)
        if sel:
            part.sample({"pool": "mixed", "basis": b, "slow_verdict": v,
                         "special_simples_finite (whole, short part, long part)": classify_mixed(b)},
                        cap=1)
    return part, time.process_time() - t0


def build_mixed_pool(quick):
    """Orbit representatives of {short pattern(s)} + {one pattern of length 5}; returns counts."""
    build_mixed_reference()
    S5 = R.perms(5)
    shorts1 = [(p,) for n in (3, 4) for p in R.perms(n)]
    fams = [("pairs", shorts1)]
    if not quick:
        sp = [p for n in (3, 4) for p in R.perms(n)]
        fams.append(("triples", list(itertools.combinations(sp, 2))))
    pool, info = [], {}
    seen = set()
    for fam, shorts in fams:
        reps = {}
        for sh in shorts:
            for q in S5:
                reps.setdefault(R.sym_class_rep(sh + (q,)), None)
        reps = sorted((canon(r) for r in reps), key=_key)
        selected, controls = [], []
        for b in reps:
            whole, short, long_ = classify_mixed(b)
            # a sub-basis alone gives a different answer and the whole basis is needed
            (selected if (whole and not short and not long_) else controls).append(b)
        if quick:
            ctrl = controls[::8]
        elif fam == "pairs":
            ctrl = controls
        else:
            ctrl = controls[::16]
        run = [(b, True) for b in selected] + [(b, False) for b in ctrl]
        if not quick and fam == "pairs":
            # every symmetric image of the selected pairs as well
            for b in selected:
                run += [(canon(i), True) for i in F.sym_images(b)]
        n0 = len(pool)
        for b, sel in run:
            if b not in seen:
                seen.add(b)
                pool.append((b, sel))
        info[fam] = {"raw_bases_enumerated": len(shorts) * len(S5), "orbits": len(reps),
                     "selected_sub_basis_answers_differ": len(selected),
                     "controls_available": len(controls), "controls_run": len(ctrl),
                     "run": len(pool) - n0}
    POOLS["mixed"] = pool
    return info


# --------------------------------------------------------------------------------------------
# pools (built in the parent, inherited by fork)
# --------------------------------------------------------------------------------------------

POOLS = {}


def build_pools(quick):
    if POOLS:
        return
    small = [canon(b) for b in R.bases(3, 4)]
    small.sort(key=_key)
    seen = set(small)
    POOLS["small"] = small

    def fresh(cands):
        out = []
        for b in cands:
            if b not in seen:
                seen.add(b)
                out.append(b)
        out.sort(key=_key)
        return out

    def images(b):
        return [canon(img) for img in F.sym_images(b)]

    emax = 5 if quick else 6
    ext1 = []
    for name in F.CORE:
        for n in range(1, emax + 1):
            for e in R.perms(n):
                ext1.extend(images(canon(F.NEEDED[name] + (e,))))
    POOLS["ext1"] = fresh(ext1)
    le4 = [p for n in range(1, 5) for p in R.perms(n)]
    ext2 = []
    for name in F.CORE:
        for e1, e2 in itertools.combinations(le4, 2):
            b = canon(F.NEEDED[name] + (e1, e2))
            ext2.extend([b] if quick else images(b))
    POOLS["ext2"] = fresh(ext2)
    dmax = 4 if quick else 5
    drop = []
    for name in F.CORE:
        need = F.NEEDED[name]
        for p in need:
            rest = tuple(q for q in need if q != p)
            for n in range(1, dmax + 1):
                for e in R.perms(n):
                    drop.append(canon(rest + (e,)))
    POOLS["drop"] = fresh(drop)
    # long block-structured extensions (size-dependent shape helpers): N_S + {e}
    two = block_perms(2, 12, 10)
    blocks = []
    for name in F.CORE:
        for e in two:
            b = canon(F.NEEDED[name] + (e,))
            blocks.extend([b] if quick else images(b))
    if not quick:
        for name in F.CORE:
            for e in block_perms(3, 12, 10):
                blocks.append(canon(F.NEEDED[name] + (e,)))
    POOLS["blocks"] = fresh(blocks)
    # slow pool: entries (basis, direct class test?, separate applies()?)
    reps = {R.sym_class_rep(b) for b in small}
    if quick:
        slow = [(b, b in reps, b in reps) for b in small if len(b) <= 2]
        slow += [(b, True, False) for b in small
                 if len(b) == 3 and b in reps and sum(1 for p in b if len(p) == 4) <= 1]
    else:
        slow = [(b, b in reps, b in reps) for b in small]
        extra = []
        s2 = set(small)
        for name in F.CORE:
            for n in range(1, 6):
                for e in R.perms(n):
                    b = canon(F.NEEDED[name] + (e,))
                    if b not in s2:
                        s2.add(b)
                        extra.append(b)
        extra.sort(key=_key)
        slow += [(b, True, False) for b in extra]
    POOLS["slow"] = slow


def shard_fast(shard):
    pool, lo, hi, nvar, twice = shard
    t0 = time.process_time()
    part = Partial()
    prev = None
    for b in POOLS[pool][lo:hi]:
        objs = {} if twice else None
        nt = check_fast(part, b, nvar, twice, objs)
        if prev is not None:
            check_stale(part, prev[0], prev[1], b)
        prev = (b, objs) if objs else None
        part.add(1, 1 if nt else 0)
        if nt:
            part.sample({"pool": pool, "basis": b,
                         "reference_report": sorted(k for k, v in F.expected(b).items() if v is True)},
                        cap=1)
    return part, time.process_time() - t0


def shard_report(shard):
    pool, lo, hi = shard
    t0 = time.process_time()
    part = Partial()
    for b in POOLS[pool][lo:hi]:
        nt = check_report(part, b)
        part.add(1, 1 if nt else 0)
        if nt and max(len(p) for p in b) >= 10:
            part.sample({"pool": pool, "basis": b,
                         "reference_report": sorted(k for k, v in F.expected(b).items() if v is True)},
                        cap=1)
    return part, time.process_time() - t0


def shard_slow(shard):
    pool, lo, hi, work = shard
    t0 = time.process_time()
    os.makedirs(work, exist_ok=True)
    os.chdir(work)              # the automaton code may write dfa_db/ relative to the cwd
    part = Partial()
    verdicts = []
    for b, direct, separate in POOLS[pool][lo:hi]:
        v = check_slow(part, b, direct, separate)
        verdicts.append((b, v))
        # the fast sub-checks already count this basis as a case; here: one slow evaluation,
        # non-trivial when the slow strategy is reported but some fast strategy is not, or
        # the other way round
        fastvals = [x for x in F.expected(b).values() if x != F.UNDEF]
        part.add(1, 1 if (v is not None and (not v) in fastvals) else 0)
        if v is not None:
            part.bump("slow_verdict_%s" % v)
            if direct:
                part.bump("slow_verdict_compared_with_class_test")
    return part, (verdicts, time.process_time() - t0)


def _shards(pool, per, *extra):
    n = len(POOLS[pool])
    return [(pool, lo, min(n, lo + per)) + extra for lo in range(0, n, per)]


# --------------------------------------------------------------------------------------------

def run(ctx, only=None):
    def want(name):
        return only is None or name in only

    quick = ctx.quick
    ctx.rule = ("one case = one basis (a set of permutations, each set enumerated once over all pools) "
                "with every fast strategy's applies(), the class tests and find_strategies in several "
                "orders compared with the restated hypotheses; non-trivial = the reference reports at "
                "least one fast strategy and rejects at least one for that basis; a slow evaluation "
                "(basis, slow observers; each once) is non-trivial when the slow verdict differs from "
                "some fast strategy's verdict; an abort execution (history, k; each once) is non-trivial "
                "when the injected exception actually cut the call short")
    ctx.assumptions = [
        "reference mc/ref_c19.py restates each hypothesis from its definition; the tables of required "
        "patterns and the shape attached to each corollary are taken from the strategy classes "
        "(arXiv 1912.07503 is not available offline)",
        "bases contain no empty permutation (the shape helpers document len(perm) > 0)",
        "one-shot iterators are not passed to find_strategies (the property speaks of sets)",
        "finitely-many-simples is compared with the library's class test (C16 owns its correctness); "
        "independently only refuted through Schmerl-Trotter up to length 8",
    ]
    build_pools(quick)
    if want("small"):
        e0 = ctx.evals
        nvar = 2 if quick else 4
        res = ctx.pmap(shard_fast, _shards("small", 48, nvar, True))
        ctx.bounds["small"] = ("all %d sets of <=3 patterns of length 1..4; 9 fast strategies x 2 calls + 1 call after the next basis, "
                               "class test on 8 images, find_strategies(.,False) in %d orders/containers"
                               % (len(POOLS["small"]), nvar))
        ctx.section("small", bases=len(POOLS["small"]), evaluations=ctx.evals - e0,
                    nontrivial=ctx.nontrivial, cpu_s=round(sum(res), 1))
    if want("ext"):
        e0, n0 = ctx.evals, ctx.nontrivial
        shards = []
        for pool in ("ext1", "ext2", "drop"):
            shards += _shards(pool, 64, 1 if quick else 2, False)
        res = ctx.pmap(shard_fast, shards)
        ctx.bounds["ext"] = {
            "ext1": "8 core strategies: every symmetric image of required patterns + {e}, |e|<=%d: %d new bases"
                    % (5 if quick else 6, len(POOLS["ext1"])),
            "ext2": "required patterns + {e1,e2}, |e|<=4%s: %d new bases"
                    % ("" if quick else ", every symmetric image", len(POOLS["ext2"])),
            "drop": "required patterns minus one + {e}, |e|<=%d: %d new bases"
                    % (4 if quick else 5, len(POOLS["drop"])),
            "observers": "9 fast strategies' applies(), class test on 8 images, "
                         "find_strategies(.,False) in %d order(s)" % (1 if quick else 2),
        }
        ctx.section("ext", bases=sum(len(POOLS[p]) for p in ("ext1", "ext2", "drop")),
                    evaluations=ctx.evals - e0, nontrivial=ctx.nontrivial - n0,
                    cpu_s=round(sum(res), 1))
    if want("blocks"):
        e0, n0 = ctx.evals, ctx.nontrivial
        res = ctx.pmap(shard_report, _shards("blocks", 96))
        ctx.bounds["blocks"] = (
            "required patterns of each of the 8 core strategies + ONE block-structured extension e, "
            "|e|<=12: e or 1(+)e' with e, e' a sum/skew sum of at most %s monotone runs of length 1..10 "
            "%s: %d new bases; observer: find_strategies(., False) against the reference report"
            % ("2" if quick else "3 (both bracketings)",
               "(identity image)" if quick else
               "(<=2 runs: every symmetric image of the basis; 3 runs: identity image)",
               len(POOLS["blocks"])))
        ctx.section("blocks", bases=len(POOLS["blocks"]), evaluations=ctx.evals - e0,
                    nontrivial=ctx.nontrivial - n0, cpu_s=round(sum(res), 1))
    if want("abort"):
        e0, n0 = ctx.evals, ctx.nontrivial
        nb = 3 if quick else 5
        ops = ["find"] if quick else ["find", F.INSENC] + F.CORE
        bases = [canon(b) for b in ABORT_BASES[:nb]]
        reports = {b: tuple(sorted(k for k, v in F.expected(b).items() if v is True)) for b in bases}
        shards = [(a, x, op, order) for a in bases for x in bases
                  if a != x and reports[a] != reports[x]
                  for op in ops for order in ("XAX", "AXA")]
        res = ctx.pmap(shard_abort, shards)
        points = sum(r[0] for r in res)
        ctx.states += len(shards)
        ctx.transitions += sum(r[0] + 1 for r in res)
        ctx.traces += sum(r[0] + 1 for r in res)
        ctx.bounds["abort"] = {
            "histories": "find_strategies(A, False); op(X) aborted; read-back find_strategies in the "
                         "orders X,A,X and A,X,A; %d ordered pairs (A, X) of bases with different "
                         "reference reports out of %s" % (len({(sh[0], sh[1]) for sh in shards}), bases),
            "ops": ops,
            "deviation": "one InjectedAbort (BaseException) at the k-th 'call' event (function entry / "
                         "generator resumption) of frames of permuta/enumeration_strategies/*.py and "
                         "permuta/permutils/symmetry.py and of frames called directly from them, for "
                         "EVERY k up to the number of such events of the fault-free run; deviation bound 1",
            "injection_points": points,
        }
        ctx.section("abort", histories=len(shards), injection_points=points,
                    aborted_executions=sum(r[1] for r in res), evaluations=ctx.evals - e0,
                    cpu_s=round(sum(r[2] for r in res), 1))
    if want("mixed"):
        e0, n0 = ctx.evals, ctx.nontrivial
        build_simples()
        info = build_mixed_pool(quick)
        # the pin-word table for length 5 is built once here and inherited by the workers
        _call(lambda: _lib()[4].perm_to_pinword_mapping(5))
        n = len(POOLS["mixed"])
        per = 3
        shards = [(lo, min(n, lo + per), os.path.join(ctx.work, "mixed%d" % i))
                  for i, lo in enumerate(range(0, n, per))]
        res = ctx.pmap(shard_mixed, shards)
        ctx.bounds["mixed"] = {
            "family": "one pattern of length 3 or 4 + one pattern of length 5%s, up to the eight symmetries"
                      % ("" if quick else "; two patterns of length 3..4 + one of length 5"),
            "selection": "reference (special-simples families of mc/ref_c16.py) on every orbit: "
                         "selected = special simples finite for the whole basis but infinite for the "
                         "short part alone and for the long part alone; controls = %s"
                         % ("every 8th of the other orbits" if quick else
                            "pairs: all other orbits (+ every image of the selected pairs); "
                            "triples: every 16th of the other orbits"),
            "observers": "find_strategies(b, True) / (b, False), class test has_finite_simples, "
                         "independent verdict (special simples + pin words to length %d)" % PIN_HORIZON,
            "counts": info,
        }
        ctx.section("mixed", run=n, evaluations=ctx.evals - e0, nontrivial=ctx.nontrivial - n0,
                    cpu_s=round(sum(res), 1), **{k: "%d/%d/%d" % (v["orbits"],
                                                                  v["selected_sub_basis_answers_differ"],
                                                                  v["run"]) for k, v in info.items()})
    if want("slow"):
        e0, n0 = ctx.evals, ctx.nontrivial
        build_simples()
        per = 4 if quick else 8
        shards = [sh + (os.path.join(ctx.work, "slow%d" % i),)
                  for i, sh in enumerate(_shards("slow", per))]
        res = ctx.pmap(shard_slow, shards)
        # equal verdicts inside every symmetry orbit
        orbits = {}
        for lst, _ in res:
            for b, v in lst:
                orbits.setdefault(R.sym_class_rep(b), []).append((b, v))
        multi = pairs = 0
        for rep, lst in sorted(orbits.items(), key=lambda kv: _key(kv[0])):
            defined = [(b, v) for b, v in lst if v is not None]
            if len(defined) > 1:
                multi += 1
            for b, v in defined[1:]:
                pairs += 1
                if v != defined[0][1]:
                    ctx.violation("fms-symmetry", {"basis": defined[0][0], "other": b, "kind": "orbit"},
                                  {"verdicts": [defined[0][1], v]})
        ctx.bump("orbits_with_several_images_compared", multi)
        ctx.bump("image_pairs_compared", pairs)
        ctx.bounds["slow"] = ("%d bases: %s" % (
            len(POOLS["slow"]),
            "all of Bases(2,4) (class test and separate applies() on one representative per orbit, the other images by orbit equality) + one representative per symmetry "
            "orbit of the 3-element bases of Bases(3,4) with at most one pattern of length 4 (class test)"
            if quick else
            "all of Bases(3,4) (class test + separate applies() on one representative per orbit, the "
            "other images tied to it by orbit equality) + required patterns + {e}, |e|<=5, for the 8 "
            "core strategies (class test)"))
        ctx.section("slow", bases=len(POOLS["slow"]), evaluations=ctx.evals - e0,
                    nontrivial=ctx.nontrivial - n0, orbits=len(orbits), orbits_compared=multi,
                    cpu_s=round(sum(c for _, c in res), 1))


# --------------------------------------------------------------------------------------------

def replay(ctx, rec):
    case = rec["case"]
    os.makedirs(ctx.work, exist_ok=True)
    os.chdir(ctx.work)
    basis = canon(case["basis"])
    kind = case.get("kind")
    part = Partial()
    if kind == "fast":
        check_fast(part, basis, int(case.get("nvar", 4)), bool(case.get("twice", True)))
    elif kind == "report":
        check_report(part, basis)
    elif kind == "mixed":
        build_simples()
        build_mixed_reference()
        check_mixed(part, basis)
    elif kind == "abort":
        abort_execution(part, canon(case["warm"]), basis, case["op"], int(case["k"]), case["order"])
    elif kind == "stale":
        objs = {}
        check_fast(Partial(), basis, 1, False, objs)
        then = canon(case["then"])
        check_fast(Partial(), then, 1, False, {})
        check_stale(part, basis, objs, then)
    elif kind == "slow":
        build_simples()
        check_slow(part, basis, bool(case.get("direct", True)), bool(case.get("separate", True)))
    elif kind == "orbit":
        build_simples()
        other = canon(case["other"])
        v1 = check_slow(part, basis, False, True)
        v2 = check_slow(part, other, False, True)
        if v1 is not None and v2 is not None and v1 != v2:
            part.violation("fms-symmetry", case, {"verdicts": [v1, v2]})
    else:
        raise ValueError("unknown case kind %r" % kind)
    # the recorded case is re-examined with all observers of its kind; what counts for the verdict
    # of the replay: violations of the recorded class (unexplained, or the recorded known-finding
    # signature) - an unrelated known finding on the same basis is not "still fails"
    for v in part.viols:
        if v["sig"] == rec.get("signature"):
            ctx.violation(v["sub"], v["case"], v["detail"], sig=v["sig"])
