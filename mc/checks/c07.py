"""C07 - concurrent queries on one permutation class: every interleaving gives the sequential answers.

E3: real threads under the cooperative scheduler of mc/sched.py; scheduling points = line events
(thorough tier also opcode events) in permuta/perm_sets/*.py + acquires of the (replaced) lock;
exhaustive DFS over schedules with iterative preemption bounding 0, 1, 2 (, 3).
Oracle per complete execution: every thread's result equals the reference answer (mc/refmodel via
c02.ref_levels), no exception, no deadlock/hang; afterwards sequential counts are still right.
"""
from __future__ import annotations

import os
import sys

from .. import alpha as A
from .. import sched as S
from ..core import Partial, REPO
from . import c02

PROPERTY = "C07"
LEVEL = "model_checking"
IMPORT_PERMUTA = False      # imported here, under the lock-factory patch (see _lib)

_PATCHED = [False]
_SNAP = [None]


def _lib():
    if not _PATCHED[0]:
        # every lock the library creates - at import time, lazily, per object, through captured
        # factories - becomes a cooperative lock; everything else in the interpreter is untouched
        d = os.path.join(os.path.abspath(REPO), "permuta", "perm_sets")
        pkg = S.import_with_cooperative_locks(
            "permuta", instrument=[os.path.join(d, f) for f in os.listdir(d) if f.endswith(".py")])
        assert os.path.abspath(pkg.__file__).startswith(os.path.abspath(REPO) + os.sep), pkg.__file__
        import permuta.perm_sets.permset as permset
        mods = _ps_modules()
        for m in mods:
            S.cooperative_locks(m)
        _SNAP[0] = [(m, S.snapshot_state(m)) for m in mods]
        _PATCHED[0] = True
    from permuta import Av, Perm
    import permuta.perm_sets.permset as permset
    return Av, Perm, permset


def _ps_modules():
    """Every module of permuta.perm_sets (the traced files): their locks are cooperative and their
    module-, class- and singleton-level state is put back before every execution."""
    return [m for n, m in sorted(sys.modules.items())
            if n.startswith("permuta.perm_sets.") and m is not None]


def _reset_state():
    for m, snap in _SNAP[0]:
        S.restore_state(m, snap)
        S.reset_locks(m)


_WATCHED = [None]


def watched_files():
    """The files whose every line is a scheduling point (permuta/perm_sets/*.py) plus, as
    (file, first line) pairs, every state-writing function elsewhere in the package (memo tables on
    the shared pattern objects, class-level tables of other modules): see sched.state_writers."""
    if _WATCHED[0] is None:
        root = os.path.join(os.path.abspath(REPO), "permuta")
        d = os.path.join(root, "perm_sets")
        files = frozenset(os.path.join(d, f) for f in os.listdir(d) if f.endswith(".py"))
        _WATCHED[0] = files | S.state_writers(root, skip=files)
    return _WATCHED[0]


# --------------------------------------------------------------------------------------------
# harnesses: JSON-able descriptions
# --------------------------------------------------------------------------------------------
B012 = [("c", (0, 1, 2))]
B2 = [("c", (0, 2, 1)), ("c", (0, 1, 2, 3))]
BFIN = [("c", (0, 1, 2)), ("c", (1, 0))]
BFIN2 = [("c", (0, 1, 2)), ("c", (2, 1, 0))]
BMESH = [("m", (0, 1), ((1, 1),))]

HARNESSES = {
    # name: (basis, prewarm level or None, threads construct the class themselves?, thread bodies)
    "count-vs-count": (B012, None, False, [[("count", 3)], [("count", 2)]]),
    "list-vs-in": (B012, None, False, [[("list", 3)], [("in", (1, 0, 3, 2))]]),
    "upto-vs-count": (B2, None, False, [[("upto", 3)], [("count", 4)]]),
    "warm-deep-vs-list": (B2, 2, False, [[("count", 4)], [("list", 3)]]),
    "two-queries-each": (B012, None, False, [[("count", 2), ("list", 3)], [("in", (1, 0)), ("count", 4)]]),
    "own-construction": (B2, None, True, [[("count", 3)], [("list", 2)]]),
    "finite-class": (BFIN, None, False, [[("list", 3)], [("count", 2)]]),
    "mesh": (BMESH, None, False, [[("count", 3)], [("list", 2)]]),
    # one thread asks for a non-empty level that is not built yet while the other builds past the
    # first EMPTY level of a finite class (a "the class has run out" shortcut must not fire early)
    "finite-shallow": (BFIN, None, False, [[("count", 1)], [("count", 3)]]),
    "finite-deeper": (BFIN2, None, False, [[("count", 2), ("list", 4)], [("count", 6)]]),
    "three-threads": (B012, None, False, [[("count", 3)], [("list", 2)], [("in", (2, 1, 0))]]),
    "three-threads-warm": (B2, 1, False, [[("list", 3)], [("count", 4)], [("upto", 2)]]),
    "four-threads": (B012, None, False, [[("count", 2)], [("list", 1)], [("in", (1, 0))], [("count", 3)]]),
}


def _query(av, q, Perm):
    kind = q[0]
    if kind == "count":
        return av.count(q[1])
    if kind == "list":
        return sorted(tuple(p) for p in av.of_length(q[1]))
    if kind == "in":
        return Perm(q[1]) in av
    if kind == "upto":
        return c02.graded_segments([tuple(p) for p in av.up_to_length(q[1])], q[1])
    if kind == "enum":
        return av.enumeration(q[1])
    raise ValueError(q)


def _expected(levels, q):
    kind = q[0]
    if kind == "count":
        return len(levels[q[1]])
    if kind == "list":
        return sorted(levels[q[1]])
    if kind == "in":
        return tuple(q[1]) in levels[len(q[1])]
    if kind == "upto":
        return [sorted(levels[n]) for n in range(q[1] + 1)]
    if kind == "enum":
        return [len(levels[n]) for n in range(q[1] + 1)]
    raise ValueError(q)


class Harness:
    def __init__(self, name, spec=None):
        self.name = name
        basis, prewarm, own, threads = spec if spec is not None else HARNESSES[name]
        self.basis = [A.norm(d) for d in basis]
        self.prewarm, self.own = prewarm, own
        self.threads = [[tuple(q[:1]) + tuple(tuple(x) if isinstance(x, list) else x for x in q[1:])
                         for q in body] for body in threads]
        self.maxn = max(len(q[1]) if q[0] == "in" else q[1] for b in self.threads for q in b)
        self.levels = c02.ref_levels(self.basis, self.maxn + 1)
        self.expected = [("ok", [_expected(self.levels, q) for q in b]) for b in self.threads]
        self.watched = watched_files()

    def spec(self):
        return [self.basis, self.prewarm, self.own, self.threads]

    def setup(self):
        Av, Perm, permset = _lib()
        _reset_state()
        Av.clear_cache()
        objs = [A.mk(d) for d in self.basis]
        av = None if self.own else Av.from_iterable(objs)
        if self.prewarm is not None:
            (av or Av.from_iterable(objs)).count(self.prewarm)
        return {"av": av, "objs": objs, "Av": Av, "Perm": Perm}

    def bodies(self):
        def make(body):
            def run(shared):
                av = shared["av"]
                if av is None:
                    av = shared["Av"].from_iterable(shared["objs"])
                return [_query(av, q, shared["Perm"]) for q in body]
            return run
        return [make(b) for b in self.threads]

    def run(self, prefix, expect=None, opcodes=False):
        shared = self.setup()
        ex = S.run_once(self.bodies(), prefix, shared, self.watched, opcodes=(opcodes is True),
                        expect=expect, calls=(opcodes in ("calls", "expr")), expr=(opcodes == "expr"))
        # afterwards: the shared class still answers correctly when asked sequentially
        post = None
        if not ex.deadlock and not ex.hang:
            Av, Perm, permset = _lib()
            S.reset_locks(permset)
            try:
                av = shared["av"] or Av.from_iterable(shared["objs"])
                got = [av.count(n) for n in range(self.maxn + 2)]
                exp = [len(lv) for lv in self.levels]
                if got != exp:
                    post = {"post_counts_expected": exp, "got": got}
            except BaseException as exc:  # noqa
                post = {"post_exception": repr(exc)}
        return ex, post

    def verdict(self, ex, post):
        """None if the execution is fine, else a JSON-able description."""
        if ex.deadlock:
            return {"deadlock": True, "results": ex.results}
        if ex.hang:
            return {"hang": True, "results": ex.results}
        bad = [i for i in range(len(self.threads)) if ex.results[i] != self.expected[i]]
        if bad:
            i = bad[0]
            return {"thread": i, "queries": self.threads[i], "expected": self.expected[i],
                    "got": ex.results[i]}
        return post


def explore_roots(shard):
    """Worker: explore the subtrees below the given root prefixes."""
    name, spec, roots, bound, opcodes, max_exec = shard
    h = Harness(name, spec)
    part = Partial()
    execs = 0
    pts = 0
    maxpts = 0

    box = {}

    def run(prefix, expect):
        ex, post = h.run(prefix, expect, opcodes)
        box["post"] = post
        return ex

    for ex in S.explore(run, bound, roots=roots, max_exec=max_exec):
        execs += 1
        pts += ex.npoints_all
        maxpts = max(maxpts, len(ex.points))
        v = h.verdict(ex, box["post"])
        if execs == 1:
            part.sample({"harness": name, "threads": h.threads, "schedule": ex.choices,
                         "preemptions": ex.preemptions(), "results": ex.results}, cap=1)
        part.outcomes.add(repr((ex.results, ex.deadlock, ex.hang)))
        if v is not None:
            part.violation("schedule", {"harness": name, "spec": h.spec(), "schedule": ex.choices,
                                        "opcodes": opcodes, "preemptions": ex.preemptions()}, v)
    part.add(execs, 0)
    return part, (execs, pts, maxpts)


def _gran(opcodes):
    return opcodes if opcodes in ("calls", "expr") else ("opcode" if opcodes else "line")


def explore_harness(ctx, name, bound, opcodes=False, max_exec=None):
    h = Harness(name)
    # the default execution and the cheap (free-switch) prefixes are executed first, serially;
    # what is left are many independent subtrees of similar size for the workers
    res = ctx.pmap(_first_level, [(name, bound, opcodes)])
    x_choices, roots, npts, nexec0 = res[0]
    per = max(1, len(roots) // 600)
    chunks = [roots[i:i + per] for i in range(0, len(roots), per)]
    out = ctx.pmap(explore_roots, [(name, h.spec(), c, bound, opcodes, max_exec) for c in chunks])
    execs = nexec0 + sum(o[0] for o in out)
    pts = npts + sum(o[1] for o in out)
    maxpts = max([len(x_choices)] + [o[2] for o in out])
    return execs, pts, maxpts, len(roots)


def _first_level(shard):
    name, bound, opcodes = shard
    h = Harness(name)
    part = Partial()
    post_box = {}
    checked = []

    def run(prefix, expect):
        ex, post = h.run(prefix, expect, opcodes)
        post_box["post"] = post
        v = h.verdict(ex, post)
        part.outcomes.add(repr((ex.results, ex.deadlock, ex.hang)))
        if v is not None:
            part.violation("schedule", {"harness": name, "spec": h.spec(), "schedule": ex.choices,
                                        "opcodes": opcodes, "preemptions": ex.preemptions()}, v)
        checked.append(ex)
        return ex

    execs, roots = S.split(run, bound, max(1, bound - 1))
    x = execs[0]
    part.add(len(execs), 0)
    # determinism: the same schedule twice gives identical observations
    x2, _ = h.run(x.choices, x.points, opcodes)
    if (x2.results, x2.points) != (x.results, x.points):
        raise S.Divergence("default schedule not reproducible for %s" % name)
    return part, (x.choices, roots, sum(e.npoints_all for e in execs), len(execs))


def run(ctx, only=None):
    quick = ctx.quick
    ctx.rule = ("every schedule of each harness within the preemption bound (a schedule = choice "
                "sequence at the points with >=2 enabled threads); an execution is non-trivial when "
                "it contains at least one preemption; states = complete executions (distinct "
                "schedules), transitions = scheduling points passed")
    ctx.assumptions = [
        "CPython with the GIL: a thread switch can only happen between bytecodes; scheduling points "
        "are line boundaries of the watched files and of every state-writing function elsewhere in "
        "the package, lock operations (creation, acquire), at granularity 'calls' also entry/return "
        "of Python functions of other files called from a watched line, at granularity 'expr' also "
        "after every attribute read, subscript read and call return inside the watched modules' "
        "function bodies (identity calls woven into the AST at import; the code under test is "
        "otherwise unchanged) (opcode granularity is not used: instruction events are not reproducible under "
        "adaptive specialisation)",
        "shared state of a class is only touched by code in permuta/perm_sets/*.py (watched)",
        "the library's lock objects are replaced from outside by cooperative locks"]
    plan = []   # (harness, bound, opcodes)
    two = ["count-vs-count", "list-vs-in", "upto-vs-count", "warm-deep-vs-list",
           "two-queries-each", "own-construction", "finite-class", "mesh", "finite-shallow",
           "finite-deeper"]
    small = ("count-vs-count", "finite-class", "mesh", "own-construction", "finite-shallow")
    # "calls" = line boundaries PLUS the entry of / return from every Python function outside the
    # watched files that a watched line calls (a switch in the middle of the calling line); its
    # points are a superset of the line points, so it replaces the line run where it is used
    # "expr" = "calls" PLUS a point after every attribute read, subscript read and call return in
    # the function bodies of the watched modules (woven in at import, sched.instrument_source): a
    # switch between two reads of shared state inside ONE source line
    if quick:
        qtwo = [h for h in two if h != "finite-deeper"]
        plan += [(h, 1, "expr") for h in qtwo]
        plan += [(h, 2, "calls" if h in small else False) for h in qtwo]
        plan += [("finite-shallow", 2, "expr")]
        plan += [("three-threads", 1, False)]
    else:
        plan += [(h, 2, "expr") for h in two]
        plan += [(h, 3, False) for h in small]
        plan += [("three-threads", 2, False), ("three-threads-warm", 1, False),
                 ("four-threads", 1, False)]
        # Opcode granularity is implemented (mc/sched.py) but not used: under CPython 3.12's
        # adaptive specialisation the number of instruction events of one code object changes
        # between executions (superinstructions), so opcode-level schedules do not replay
        # deterministically; the exploration would end in a Divergence instead of a verdict.
    if only:
        plan = [p for p in plan if p[0] in only]
    tot_exec = tot_pts = 0
    rows = []
    for name, bound, opcodes in plan:
        o0 = len(ctx.outcomes)
        execs, pts, maxpts, nroots = explore_harness(ctx, name, bound, opcodes)
        tot_exec += execs
        tot_pts += pts
        rows.append({"harness": name, "threads": len(HARNESSES[name][3]), "preemption_bound": bound,
                     "granularity": _gran(opcodes), "executions": execs,
                     "scheduling_points": pts, "max_choice_points": maxpts})
        ctx.section("%s/b%d/%s" % (name, bound, _gran(opcodes)),
                    executions=execs, points=pts, max_choice_points=maxpts)
    ctx.states = tot_exec
    ctx.transitions = tot_pts
    ctx.traces = tot_exec
    ctx.nontrivial = max(0, tot_exec - len(plan))   # every non-default schedule deviates somewhere
    ctx.bounds["harnesses"] = rows
    ctx.extra["schedule_format"] = ("choice index at each point with >=2 enabled threads; 0 = keep "
                                    "running (or lowest id after a forced switch)")


def replay(ctx, rec):
    case = rec["case"]
    h = Harness(case["harness"], case["spec"])
    ex, post = h.run(case["schedule"], None, case.get("opcodes", False))
    v = h.verdict(ex, post)
    if v is not None:
        ctx.violation("schedule", case, v)
