"""C14 - pin words decode to their pin permutations and reflect pattern containment.

E1 (bounded exhaustive enumeration against mc/ref_c14.py, which shares no code with permuta):

  enum       pinwords_of_length(L) / strict_pinwords_of_length(L) against the grammar filter over all
             8^L strings
  decode     pinword_to_perm, quadrant (every index), factor_pinword for every pin word
  tables     the three lru-cached tables against the reference tables, mutually inverse, in every
             order of consultation (short histories, caches cleared before each history)
  translate  sp_to_m / m_to_sp on all strict words and all words of M
  contain    every pair (w, u) of pin words: pinword_occurrences / pinword_contains (and the _sp
             variants for strict u) against the *geometric* occurrences; every (w, perm):
             perm <= perm(w)  <=>  some pin word of perm is found in w by pinword_contains
  order      for every w: the whole battery of containment queries on w asked in six orders (multi-
             factor u before strict u, descending, start indices descending, per-permutation with
             its pin words sorted / reversed), each from a re-executed library
  scale      long periodic words (spirals, zigzags, other period-4 runs; |w| <= 14 quick / 20 thorough,
             strict u with tails up to 9, two-factor u): occurrences_sp against Lemma 3.12 directly,
             occurrences/contains against the letter test; thorough: spirals behind a rigid prefix
             against brute-force containment with all pin words of the pattern enumerated
  forms      every argument form (iterables of every kind for pinwords_for_basis; keyword / instance forms)
  fresh      list-like results damaged in place by the caller, then asked again along several routes
             (the three cached tables: off by default, flag VERIF_C14_FRESH_TABLES=1 or --only fresh_tables)
  abort      an exception injected at every k-th library call of an operation (first-time table builds,
             decode, containment queries), then everything read back
  interleave two live pinword_occurrences generators advanced alternately
  history    BFS over histories that interleave the direct entry points (pinword_to_perm, quadrant,
             factor_pinword, occurrences/contains, sp_to_m/m_to_sp, pinwords_of_length) with
             first-time table builds on a freshly re-executed library; all built tables re-checked
             in full after every step; hidden module/class level state is part of the state; a slice
             re-run in fresh interpreters
  selftest   the reference against itself (encode o decode = id, fast tables = naive definitions,
             Lemma 3.10 on the reference geometry, paper variant with gap = geometry); a failure
             there is a harness error, never a verdict

Known finding (open): pinword_occurrences lets a later factor sit on a direction letter that
directly follows the previous factor.  Deviation model: ref_c14.letter_occurrences(gap=False).
"""
from __future__ import annotations

import itertools

from .. import ref_c14 as F
from .. import refmodel as R
from ..core import Partial

PROPERTY = "C14"
LEVEL = "exploration"

SIG_OCC = "C14|pinword_occurrences|later factor on a direction letter directly after the previous factor"
SIG_CON = "C14|pinword_contains|later factor on a direction letter directly after the previous factor"

QUAD_DIRS = {"1": "RU", "2": "LU", "3": "LD", "4": "RD"}


class _Abort(BaseException):
    """Injected by the abort sub-check (stands for Ctrl-C / an exception out of the caller's loop)."""


def _PW():
    from permuta.permutils.pin_words import PinWords
    return PinWords


def _Perm():
    from permuta import Perm
    return Perm


# --------------------------------------------------------------------------------------------
# reference word lists
# --------------------------------------------------------------------------------------------

def ref_words(n, prefix=""):
    """All pin words of length n that start with `prefix` (every string, filtered by the grammar)."""
    if len(prefix) > n:
        return []
    out = []
    for t in itertools.product(F.ALPHABET, repeat=n - len(prefix)):
        w = prefix + "".join(t)
        if F.is_pinword(w):
            out.append(w)
    return out


def prefixes(n, plen):
    plen = min(n, plen)
    return [p for p in ref_words(plen)] if plen else [""]


# tables built in the parent before forking ------------------------------------------------------
WORDS = {}           # n -> list of pin words
LENS = {}            # u -> tuple of factor lengths
SHAPE2WORD = {}      # pointed configuration -> word
WORDS_OF_PERM = {}   # perm tuple -> list of words


def build_globals(maxlen):
    for n in range(0, maxlen + 1):
        if n in WORDS:
            continue
        WORDS[n] = ref_words(n)
        for w in WORDS[n]:
            xs, ys = F.decode(w)
            xr, yr = F.ranks(xs), F.ranks(ys)
            if F.encode(xr, yr) != w:
                raise RuntimeError("reference self test: encode(decode(%r)) = %r" % (w, F.encode(xr, yr)))
            sh = (tuple(xr), tuple(yr))
            if sh in SHAPE2WORD:
                raise RuntimeError("reference self test: %r and %r have the same configuration"
                                   % (w, SHAPE2WORD[sh]))
            SHAPE2WORD[sh] = w
            LENS[w] = tuple(len(f) for f in F.factors(w))
            WORDS_OF_PERM.setdefault(F.perm_of(w), []).append(w)


# --------------------------------------------------------------------------------------------
# enum
# --------------------------------------------------------------------------------------------

def check_enum(part, L):
    PW = _PW()
    ref = ref_words(L)
    try:
        got = list(PW.pinwords_of_length(L))
    except Exception as exc:  # noqa
        part.violation("enum", {"length": L}, {"exception": repr(exc)})
        return
    if sorted(got) != sorted(ref):
        sg, sr = set(got), set(ref)
        part.violation("enum", {"length": L},
                       {"missing": sorted(sr - sg)[:5], "extra": sorted(sg - sr)[:5],
                        "n_got": len(got), "n_distinct_got": len(sg), "n_expected": len(ref)})
    part.add(1, 1 if L >= 2 else 0)
    part.bump("enum_strings_filtered", 8 ** L)
    if L >= 1:
        sref = [w for w in ref if F.is_strict(w)]
        try:
            sgot = list(PW.strict_pinwords_of_length(L))
            flags = [(w, PW.is_strict_pinword(w)) for w in ref]
        except Exception as exc:  # noqa
            part.violation("strict_enum", {"length": L}, {"exception": repr(exc)})
            return
        if sorted(sgot) != sorted(sref):
            part.violation("strict_enum", {"length": L},
                           {"missing": sorted(set(sref) - set(sgot))[:5],
                            "extra": sorted(set(sgot) - set(sref))[:5],
                            "n_got": len(sgot), "n_expected": len(sref)})
        wrong = [w for w, f in flags if f != F.is_strict(w)]
        if wrong:
            part.violation("strict_enum", {"length": L}, {"is_strict_pinword_wrong_on": wrong[:5]})
        part.add(1, 1 if L >= 2 else 0)


def shard_enum(shard):
    part = Partial()
    check_enum(part, shard)
    return part


# --------------------------------------------------------------------------------------------
# decode / quadrant / factor
# --------------------------------------------------------------------------------------------

def check_word(part, PW, w):
    """pinword_to_perm, quadrant at every index, factor_pinword for one pin word."""
    try:
        got = tuple(PW.pinword_to_perm(w))
    except BaseException as exc:  # noqa  (the decoder uses `assert False`)
        if isinstance(exc, (KeyboardInterrupt, SystemExit, _Abort)):
            raise
        part.violation("decode", {"word": w}, {"exception": repr(exc)})
        got = None
    xs, ys = F.decode(w)
    if got is not None:
        yr = {pid: k for k, pid in enumerate(p for p in ys if p != 0)}
        exp = tuple(yr[p] for p in xs if p != 0)
        if got != exp:
            part.violation("decode", {"word": w}, {"expected": exp, "got": got})
    xr, yr2 = F.ranks(xs), F.ranks(ys)
    for i in range(len(w)):
        expq = F.quadrant_of(xr, yr2, i + 1)
        try:
            gq = PW.quadrant(w, i)
        except Exception as exc:  # noqa
            part.violation("quadrant", {"word": w, "index": i}, {"exception": repr(exc)})
            continue
        if gq != expq:
            part.violation("quadrant", {"word": w, "index": i}, {"expected": expq, "got": gq})
    try:
        gf = list(PW.factor_pinword(w))
    except Exception as exc:  # noqa
        part.violation("factor", {"word": w}, {"exception": repr(exc)})
        return
    if gf != F.factors(w):
        part.violation("factor", {"word": w}, {"expected": F.factors(w), "got": gf})


def shard_decode(shard):
    n, prefix = shard
    PW = _PW()
    part = Partial()
    words = ref_words(n, prefix)
    for w in words:
        check_word(part, PW, w)
    nt = sum(1 for w in words if any(c in F.DIRS for c in w))
    part.add(len(words), nt)
    part.bump("decode_words", len(words))
    part.bump("quadrant_queries", n * len(words))
    if words and n == 5 and prefix in ("1U", "3L"):
        w = words[len(words) // 2]
        part.sample({"sub": "decode", "word": w, "perm": F.perm_of(w), "quadrants": F.quadrants(w),
                     "factors": F.factors(w)}, cap=1)
    return part


# --------------------------------------------------------------------------------------------
# tables (and short histories of consulting them)
# --------------------------------------------------------------------------------------------

TABLE_FUNCS = ("pinword_to_perm_mapping", "perm_to_pinword_mapping", "perm_to_strict_pinword_mapping")


def clear_table_caches(PW):
    """True if every table cache could be cleared (or there is no cache to clear)."""
    for name in TABLE_FUNCS:
        f = getattr(PW, name, None)
        cc = getattr(f, "cache_clear", None)
        if cc is not None:
            cc()
    return True


def ref_tables(L):
    words = ref_words(L)
    w2p = {w: F.perm_of(w) for w in words}
    p2w = {}
    for w, p in w2p.items():
        p2w.setdefault(p, set()).add(w)
    strict = {}
    for p, ws in p2w.items():
        s = {w for w in ws if F.is_strict(w)}
        if s:
            strict[p] = s
    return w2p, p2w, strict


_REF_TABLES = {}


def ref_tables_cached(L):
    if L not in _REF_TABLES:
        _REF_TABLES[L] = ref_tables(L)
    return _REF_TABLES[L]


def _diff_dict(exp, got, cap=4):
    keys = sorted(set(exp) | set(got), key=repr)
    bad = [k for k in keys if exp.get(k) != got.get(k)]
    return {"n_differing_keys": len(bad),
            "first": [{"key": k, "expected": exp.get(k, "<absent>"), "got": got.get(k, "<absent>")}
                      for k in bad[:cap]]}


def run_table_ops(part, L, ops, refs=None):
    """Clear the caches, then perform the operations in order, checking each against the reference.
    Reports at most one violation (the first failing operation)."""
    PW, Perm = _PW(), _Perm()
    w2p_ref, p2w_ref, strict_ref = refs or ref_tables(L)
    clear_table_caches(PW)
    case = {"length": L, "ops": list(ops)}
    perms_L = R.perms(L)
    nonpin = [p for p in perms_L if p not in p2w_ref]
    for k, op in enumerate(ops):
        bad = None
        try:
            if op == "w2p":
                r = PW.pinword_to_perm_mapping(L)
                got = {w: tuple(p) for w, p in r.items()}
                if got != w2p_ref:
                    bad = _diff_dict(w2p_ref, got)
            elif op == "p2w":
                r = PW.perm_to_pinword_mapping(L)
                got = {tuple(p): set(ws) for p, ws in r.items() if ws}
                if got != p2w_ref:
                    bad = _diff_dict(p2w_ref, got)
            elif op == "strict":
                r = PW.perm_to_strict_pinword_mapping(L)
                got = {tuple(p): set(ws) for p, ws in r.items() if ws}
                if L == 0:
                    got = {}     # the empty word: neither demanded nor forbidden
                if got != strict_ref:
                    bad = _diff_dict(strict_ref, got)
            elif op == "inverse":
                w2p = PW.pinword_to_perm_mapping(L)
                p2w = PW.perm_to_pinword_mapping(L)
                errs = []
                for w, p in w2p.items():
                    if w not in p2w.get(p, ()):
                        errs.append({"word": w, "perm": tuple(p), "not_in": "perm_to_pinword[perm]"})
                seen = set()
                for p, ws in list(p2w.items()):
                    for u in ws:
                        if u in seen:
                            errs.append({"word": u, "listed_under_two_perms": True})
                        seen.add(u)
                        if u not in w2p or w2p[u] != p:
                            errs.append({"word": u, "perm": tuple(p),
                                         "pinword_to_perm": tuple(w2p[u]) if u in w2p else "<absent>"})
                if seen != set(w2p):
                    errs.append({"words_only_in_one_table": sorted(seen ^ set(w2p))[:5]})
                if errs:
                    bad = {"n": len(errs), "first": errs[:4]}
            elif op == "other":
                # the same three tables for the neighbouring length (memo keyed by length)
                L2 = L - 1
                o_w2p, o_p2w, o_strict = ref_tables_cached(L2)
                got = {w: tuple(p) for w, p in PW.pinword_to_perm_mapping(L2).items()}
                if got != o_w2p:
                    bad = dict(_diff_dict(o_w2p, got), table="pinword_to_perm_mapping(%d)" % L2)
                got = {tuple(p): set(ws) for p, ws in PW.perm_to_pinword_mapping(L2).items() if ws}
                if bad is None and got != o_p2w:
                    bad = dict(_diff_dict(o_p2w, got), table="perm_to_pinword_mapping(%d)" % L2)
                got = {tuple(p): set(ws)
                       for p, ws in PW.perm_to_strict_pinword_mapping(L2).items() if ws}
                if L2 == 0:
                    got = {}
                if bad is None and got != o_strict:
                    bad = dict(_diff_dict(o_strict, got), table="perm_to_strict_pinword_mapping(%d)" % L2)
            elif op == "basis":
                basis = [perms_L[0], perms_L[-1]]
                exp = sorted(w for p in basis for w in p2w_ref.get(p, ()))
                got = sorted(PW.pinwords_for_basis([Perm(p) for p in basis]))
                if got != exp:
                    bad = {"basis": basis, "n_expected": len(exp), "n_got": len(got),
                           "missing": sorted(set(exp) - set(got))[:4],
                           "extra": sorted(set(got) - set(exp))[:4]}
            elif op == "basis_nonpin":
                # a permutation without pin words: consulting the table for it must give nothing
                # (the table is a defaultdict: the lookup leaves an empty entry behind)
                basis = ([nonpin[0]] if nonpin else []) + [perms_L[0]]
                exp = sorted(w for p in basis for w in p2w_ref.get(p, ()))
                got = sorted(PW.pinwords_for_basis([Perm(p) for p in basis]))
                if got != exp:
                    bad = {"basis": basis, "n_expected": len(exp), "n_got": len(got)}
            else:
                raise ValueError(op)
        except ValueError:
            raise
        except Exception as exc:  # noqa
            bad = {"exception": repr(exc)}
        if bad is not None:
            bad["failed_op"] = [k, op]
            part.violation("tables", case, bad)
            return False
    return True


def shard_tables(shard):
    """shard = (L, list of op sequences)."""
    L, seqs = shard
    part = Partial()
    refs = ref_tables(L)
    for ops in seqs:
        run_table_ops(part, L, ops, refs)
        part.add(1, 1 if (L >= 2 and len(set(ops)) >= 2) else 0)
        part.bump("table_histories", 1)
        part.bump("table_operations", len(ops))
    if L == 3 and len(seqs) == 1 and seqs[0][0] == "w2p":
        part.sample({"sub": "tables", "length": L, "ops": list(seqs[-1]),
                     "pin_perms": len(refs[1]), "words": len(refs[0])}, cap=1)
    return part


# --------------------------------------------------------------------------------------------
# translate: SP <-> M
# --------------------------------------------------------------------------------------------

def strict_words(n):
    """All strict pin words of length n (numeral + alternating directions)."""
    if n == 0:
        return []
    return [q + m for q in F.QUADS for m in F.m_words(n - 1)]


def ref_sp_to_m(u):
    """Definition: replace the numeral by the two directions of its quadrant, in the order(s) that
    keep the axes alternating."""
    a, b = QUAD_DIRS[u[0]]
    return sorted(m for m in (a + b + u[1:], b + a + u[1:]) if F.is_m_word(m))


def ref_m_to_sp(m):
    pair = set(m[:2])
    for q, d in QUAD_DIRS.items():
        if set(d) == pair:
            return q + m[2:]
    raise ValueError(m)


def check_sp(part, PW, u):
    exp = ref_sp_to_m(u)
    try:
        got = PW.sp_to_m(u)
        gl = sorted(got)
    except Exception as exc:  # noqa
        part.violation("sp_to_m", {"word": u}, {"exception": repr(exc)})
        return
    if gl != exp:
        part.violation("sp_to_m", {"word": u}, {"expected": exp, "got": list(got)})
        return
    for m in got:
        try:
            back = PW.m_to_sp(m)
        except Exception as exc:  # noqa
            part.violation("sp_to_m", {"word": u}, {"m": m, "m_to_sp_exception": repr(exc)})
            continue
        if back != u:
            part.violation("sp_to_m", {"word": u}, {"m": m, "m_to_sp": back})


def check_m(part, PW, m):
    try:
        if len(m) >= 2:
            exp = ref_m_to_sp(m)
            got = PW.m_to_sp(m)
            if got != exp:
                part.violation("m_to_sp", {"word": m}, {"expected": exp, "got": got})
                return
            again = PW.sp_to_m(got)
            if m not in again:
                part.violation("m_to_sp", {"word": m}, {"sp": got, "sp_to_m": list(again)})
        same = PW.sp_to_m(m)
        if list(same) != [m]:
            part.violation("m_to_sp", {"word": m}, {"sp_to_m_on_M_word": list(same)})
    except Exception as exc:  # noqa
        part.violation("m_to_sp", {"word": m}, {"exception": repr(exc)})


def shard_translate(shard):
    kind, n = shard
    PW = _PW()
    part = Partial()
    if kind == "sp":
        ws = strict_words(n)
        for u in ws:
            check_sp(part, PW, u)
            # reference self test (Lemma 3.10): letters i-1, i of phi(u) name the quadrant of pin i
            q = F.quadrants(u)
            for m in ref_sp_to_m(u):
                for i in range(1, n + 1):
                    if ref_m_to_sp(m[i - 1:i + 1]) != q[i - 1]:
                        raise RuntimeError("reference self test: Lemma 3.10 fails for %r / %r" % (u, m))
        part.add(len(ws), len(ws) if n >= 2 else 0)
        part.bump("strict_words_translated", len(ws))
    else:
        ws = F.m_words(n)
        for m in ws:
            check_m(part, PW, m)
        part.add(len(ws), len(ws) if n >= 3 else 0)
        part.bump("m_words_translated", len(ws))
    if n == 4 and ws:
        w = ws[5]
        part.sample({"sub": "translate", "kind": kind, "word": w,
                     "image": ref_sp_to_m(w) if kind == "sp" else ref_m_to_sp(w)}, cap=1)
    return part


# --------------------------------------------------------------------------------------------
# contain
# --------------------------------------------------------------------------------------------

def _stdt(seq):
    s = sorted(seq)
    return tuple(s.index(v) for v in seq)


def w_tables(w, maxu):
    """For one word w: dicts u -> list of placements (tuples of factor starts)
         G  geometric occurrences,
         D  letter test, factors may touch (deviation model of the known finding),
         P  letter test with the gap condition of the source paper,
       over ALL pin words u of length <= maxu at once, and the number of placements looked at per
       tuple of factor lengths."""
    n = len(w)
    xs, ys = F.decode(w)
    xr, yr = F.ranks(xs), F.ranks(ys)
    q = [F.quadrant_of(xr, yr, i) for i in range(1, n + 1)]
    G, D, P, NPL = {}, {}, {}, {}
    DIRS = F.DIRS

    def emit(starts, lens):
        ids = [0]
        for s, l in zip(starts, lens):
            ids.extend(range(s + 1, s + l + 1))
        sh = (_stdt([xr[i] for i in ids]), _stdt([yr[i] for i in ids]))
        NPL[lens] = NPL.get(lens, 0) + 1
        u = SHAPE2WORD.get(sh)
        if u is not None and LENS[u] == lens:
            G.setdefault(u, []).append(starts)
        letters = []
        gap_ok = True
        end = None
        for s, l in zip(starts, lens):
            seg = w[s + 1:s + l]
            if any(c not in DIRS for c in seg):
                return
            letters.append(q[s] + seg)
            if end is not None and s == end and w[s] in DIRS:
                gap_ok = False
            end = s + l
        ud = "".join(letters)
        D.setdefault(ud, []).append(starts)
        if gap_ok:
            P.setdefault(ud, []).append(starts)

    def rec(starts, lens, lo, used):
        emit(starts, lens)
        for s in range(lo, n):
            for l in range(1, min(n - s, maxu - used) + 1):
                rec(starts + (s,), lens + (l,), s + l, used + l)

    rec((), (), 0, 0)
    return G, D, P, NPL


EMPTY = []


def check_pair(part, PW, w, u, G, D, known, with_sp=True):
    """All observers on one pair of pin words.  G, D: expected lists (geometric / deviation model).
    Returns the observed pinword_contains (None on exception)."""
    case = {"w": w, "u": u}
    try:
        C = list(PW.pinword_occurrences(w, u))
    except Exception as exc:  # noqa
        part.violation("occurrences", case, {"exception": repr(exc)})
        C = None
    if C is not None and C != G and set(C) != set(G):
        if set(C) == set(D):
            known(part, "occurrences", SIG_OCC, case, {"expected": G, "got": C})
        else:
            part.violation("occurrences", case, {"expected": G, "got": C, "deviation_model": D})
    try:
        c = PW.pinword_contains(w, u)
    except Exception as exc:  # noqa
        part.violation("contains_pair", case, {"exception": repr(exc)})
        c = None
    if c is not None and c != bool(G):
        if c == bool(D):
            known(part, "contains_pair", SIG_CON, case, {"expected": bool(G), "got": c})
        else:
            part.violation("contains_pair", case, {"expected": bool(G), "got": c})
    if with_sp and len(u) >= 1 and LENS_of(u) == (len(u),):
        exp1 = [st[0] for st in G]
        for start in range(0, len(w) + 1):
            e = [s for s in exp1 if s >= start]
            try:
                g = list(PW.pinword_occurrences_sp(w, u, start))
            except Exception as exc:  # noqa
                part.violation("occurrences_sp", {"w": w, "u": u, "start": start},
                               {"exception": repr(exc)})
                continue
            if g != e and set(g) != set(e):
                part.violation("occurrences_sp", {"w": w, "u": u, "start": start},
                               {"expected": e, "got": g})
        try:
            g0 = list(PW.pinword_occurrences_sp(w, u))
            cs = PW.pinword_contains_sp(w, u)
            if set(g0) != set(exp1):
                part.violation("occurrences_sp", {"w": w, "u": u, "start": None},
                               {"expected": exp1, "got": g0})
            if cs != bool(exp1):
                part.violation("contains_sp", case, {"expected": bool(exp1), "got": cs})
        except Exception as exc:  # noqa
            part.violation("contains_sp", case, {"exception": repr(exc)})
    return c


def LENS_of(u):
    v = LENS.get(u)
    if v is None:
        v = tuple(len(f) for f in F.factors(u))
    return v


class Known:
    """Collects cases attributed to the known finding inside one shard: counted, and the smallest
    case per (sub, signature) handed back to the parent (which reports it once)."""

    def __init__(self):
        self.count = {}
        self.first = {}

    def __call__(self, part, sub, sig, case, detail):
        key = (sub, sig)
        self.count[key] = self.count.get(key, 0) + 1
        size = sum(len(v) if hasattr(v, "__len__") else 1 for v in case.values())
        if key not in self.first or size < self.first[key][0]:
            self.first[key] = (size, case, detail)

    def payload(self):
        return {"count": {"%s\t%s" % k: v for k, v in self.count.items()},
                "first": {"%s\t%s" % k: v for k, v in self.first.items()}}


def report_known(ctx, payloads):
    """One representative (the smallest) per (sub, signature) is reported by the parent; the counts
    of all shards are added up."""
    total, first = {}, {}
    for pl in payloads:
        if not pl:
            continue
        for k, v in pl["count"].items():
            total[k] = total.get(k, 0) + v
        for k, v in pl["first"].items():
            if k not in first or v[0] < first[k][0]:
                first[k] = v
    for k in sorted(first):
        sub, sig = k.split("\t")
        _, case, detail = first[k]
        ctx.violation(sub, case, detail, sig=sig)
        ctx.bump("sig:" + sig, total[k] - 1)
        ctx.nviol += total[k] - 1
        ctx.bump("known_cases_" + sub, total[k])


def shard_contain(shard):
    n, prefix, maxu = shard
    PW = _PW()
    part = Partial()
    known = Known()
    words = ref_words(n, prefix)
    kmax = maxu            # may exceed n: a longer word or permutation is never contained
    U = [u for k in range(0, kmax + 1) for u in WORDS[k]]
    PERMS = [p for k in range(0, kmax + 1) for p in R.perms(k)]
    npairs = nt_pairs = nperm = nt_perm = 0
    gap_bad = 0
    for w in words:
        G, D, P, NPL = w_tables(w, kmax)
        if G != P:
            gap_bad += 1
        cont = {}
        for u in U:
            g = G.get(u, EMPTY)
            cont[u] = check_pair(part, PW, w, u, g, D.get(u, EMPTY), known)
            if g and len(g) < NPL.get(LENS[u], 0):
                nt_pairs += 1
        npairs += len(U)
        part.outcomes.update(("n_occurrences", len(v)) for v in G.values())
        # containment of permutations reflected in words
        contained = F.patterns_of(F.perm_of(w))
        for p in PERMS:
            us = WORDS_OF_PERM.get(p, EMPTY)
            exp = p in contained
            if any(cont[u] is None for u in us):
                continue          # an exception was already reported for that pair
            got = any(cont[u] for u in us)
            if got != exp:
                dev = any(bool(D.get(u)) for u in us)
                case = {"w": w, "perm": list(p)}
                det = {"perm_of_w": F.perm_of(w), "expected_contained": exp, "found_in_words": got,
                       "pin_words_found": [u for u in us if cont[u]][:4], "n_pin_words": len(us)}
                if got == dev:
                    known(part, "reflect", SIG_CON, case, det)
                else:
                    part.violation("reflect", case, det)
            if us and 0 < len(p) < n:
                nt_perm += 1
        nperm += len(PERMS)
    if gap_bad:
        raise RuntimeError("reference self test: letter test with gap != geometric occurrences for "
                           "%d words with prefix %r" % (gap_bad, prefix))
    part.add(npairs + nperm, nt_pairs + nt_perm)
    part.bump("contain_word_pairs", npairs)
    part.bump("contain_word_pairs_nontrivial", nt_pairs)
    part.bump("contain_word_perm_pairs", nperm)
    part.bump("contain_word_perm_pairs_nontrivial", nt_perm)
    if n == 4 and words and prefix in ("1L", "24", "3R"):
        w = words[len(words) // 2]
        G, D, P, NPL = w_tables(w, kmax)
        u = max((x for x in G if 0 < len(x) < n), key=lambda x: (len(G[x]), len(x)))
        part.sample({"sub": "contain", "w": w, "u": u, "geometric_occurrences": G[u],
                     "perm_of_w": F.perm_of(w), "perm_of_u": F.perm_of(u)}, cap=1)
    payload = {"count": {"%s\t%s" % k: v for k, v in known.count.items()},
               "first": {"%s\t%s" % k: v for k, v in known.first.items()}}
    return part, payload


def shard_selftest(shard):
    """Fast per-word tables against the naive definitions (no library call)."""
    n, prefix = shard
    part = Partial()
    for w in ref_words(n, prefix):
        G, D, P, _ = w_tables(w, n)
        for k in range(0, n + 1):
            for u in WORDS[k]:
                if G.get(u, []) != F.geometric_occurrences(w, u) or \
                   D.get(u, []) != F.letter_occurrences(w, u, False) or \
                   P.get(u, []) != F.letter_occurrences(w, u, True):
                    raise RuntimeError("reference self test: fast tables differ from the naive "
                                       "definitions on %r / %r" % (w, u))
                part.bump("selftest_pairs", 1)
    return part


# --------------------------------------------------------------------------------------------
# interleave
# --------------------------------------------------------------------------------------------

def check_interleave(part, PW, w, u1, u2):
    case = {"w": w, "u1": u1, "u2": u2}
    try:
        a = list(PW.pinword_occurrences(w, u1))
        b = list(PW.pinword_occurrences(w, u2))
        g1, g2 = PW.pinword_occurrences(w, u1), PW.pinword_occurrences(w, u2)
        ia, ib = [], []
        live = [(g1, ia), (g2, ib)]
        while live:
            nxt = []
            for g, out in live:
                try:
                    out.append(next(g))
                    nxt.append((g, out))
                except StopIteration:
                    pass
            live = nxt
    except Exception as exc:  # noqa
        part.violation("interleave", case, {"exception": repr(exc)})
        return False
    if ia != a or ib != b:
        part.violation("interleave", case, {"alone": [a, b], "interleaved": [ia, ib]})
    return bool(a) and bool(b)


def shard_interleave(shard):
    n, prefix, maxu = shard
    PW = _PW()
    part = Partial()
    U = [u for k in range(1, maxu + 1) for u in WORDS[k]]
    cnt = nt = 0
    for w in ref_words(n, prefix):
        for u1 in U:
            for u2 in U:
                nt += 1 if check_interleave(part, PW, w, u1, u2) else 0
                cnt += 1
    part.add(cnt, nt)
    part.bump("interleaved_generator_pairs", cnt)
    return part


# --------------------------------------------------------------------------------------------
# history: direct entry points interleaved with first-time table builds (E2-style BFS)
# --------------------------------------------------------------------------------------------
# A state is reached by a history of operations executed on a FRESH library: before every history
# the two modules are re-executed (importlib.reload), so every lru cache, every module/class level
# container, every default argument is new.  After every operation its own answer is compared with
# the reference AND every table built so far is fetched again and compared in full.  States are
# merged by a canonical form that contains the complete contents of the built tables, the sizes of
# all lru caches of PinWords and every piece of hidden mutable state reachable from the two
# modules (module globals, instances living at module/class level, class attributes, default
# arguments, closure cells).

HIST_MODS = ("permuta.permutils.pinword_util", "permuta.permutils.pin_words")
TABLE_KINDS = ("w2p", "p2w", "strict")
IMPLIED = {"w2p": ("w2p",), "p2w": ("w2p", "p2w"), "strict": ("w2p", "p2w", "strict"),
           "basis": ("w2p", "p2w")}

DEC_WORDS = ["", "3", "1U", "24L", "3R1D"]
DIRECT_OPS = ([["decode", w] for w in DEC_WORDS]
              + [["word", "2RU4L"],
                 ["pair", "1L3D", "1L3"], ["pair", "244U", "4U"],
                 ["translate", "2UL"], ["translate", "DRD"],
                 ["enum", 2],
                 ["interleave", "111", "11", "1"]])


def table_ops(lengths):
    return [[k, l] for l in lengths for k in ("w2p", "p2w", "strict", "basis")]


_CODE = {}


def fresh_library():
    """Re-execute the two modules in place (what importlib.reload does, with the compiled source
    kept between histories).  Returns False (after clearing what can be cleared) if that is not
    possible."""
    import importlib
    import sys
    try:
        for name in HIST_MODS:
            mod = sys.modules.get(name)
            if mod is None:
                importlib.import_module(name)
                continue
            code = _CODE.get(name)
            if code is None:
                path = mod.__file__
                with open(path, "rb") as fh:
                    code = _CODE[name] = compile(fh.read(), path, "exec", dont_inherit=True)
            exec(code, mod.__dict__)
        return True
    except Exception:  # noqa
        clear_table_caches(_PW())
        return False


def _freeze(x, depth=0, seen=None):
    import collections
    from fractions import Fraction
    if isinstance(x, (bool, int, float, str, bytes)) or x is None:
        return x
    if isinstance(x, Fraction):
        return ("F", x.numerator, x.denominator)
    if depth > 8:
        return "<deep>"
    seen = seen or ()
    if id(x) in seen:
        return "<cycle>"
    seen = seen + (id(x),)
    if isinstance(x, dict):
        return ("dict", type(x).__name__,
                tuple(sorted(((repr(_freeze(k, depth + 1, seen)), _freeze(v, depth + 1, seen))
                              for k, v in x.items()), key=repr)))
    if isinstance(x, (list, tuple, collections.deque)):
        return (type(x).__name__,) + tuple(_freeze(v, depth + 1, seen) for v in x)
    if isinstance(x, (set, frozenset)):
        return ("set",) + tuple(sorted(repr(_freeze(v, depth + 1, seen)) for v in x))
    if type(x).__module__ in HIST_MODS and hasattr(x, "__dict__"):
        return ("obj", type(x).__name__, _freeze(vars(x), depth + 1, seen))
    if callable(x):
        return ("callable", getattr(x, "__qualname__", type(x).__name__))
    return ("other", type(x).__name__)


def _func_state(f):
    """Mutable state a function can carry between calls."""
    out = []
    inner = f
    for _ in range(4):
        inner = getattr(inner, "__func__", inner)
        ci = getattr(inner, "cache_info", None)
        if ci is not None:
            try:
                out.append(("lru", ci().currsize))
            except Exception:  # noqa
                pass
        if hasattr(inner, "__wrapped__"):
            inner = inner.__wrapped__
        else:
            break
    inner = getattr(inner, "__func__", inner)
    for attr in ("__defaults__", "__kwdefaults__"):
        v = getattr(inner, attr, None)
        if v:
            out.append((attr, _freeze(v)))
    for cell in getattr(inner, "__closure__", None) or ():
        try:
            out.append(("cell", _freeze(cell.cell_contents)))
        except ValueError:
            out.append(("cell", "<empty>"))
    if getattr(inner, "__dict__", None):
        out.append(("attrs", _freeze(dict(inner.__dict__))))
    return tuple(out)


def hidden_state():
    import collections
    import sys
    import types
    containers = (list, dict, set, collections.deque, bytearray)
    out = []

    def look(owner, k, v, modname):
        if isinstance(v, containers):
            out.append((owner, k, _freeze(v)))
        elif isinstance(v, (types.FunctionType, staticmethod, classmethod)) or hasattr(v, "cache_info"):
            if getattr(getattr(v, "__func__", v), "__module__", modname) == modname:
                st = _func_state(v)
                if st:
                    out.append((owner, k, st))
        elif isinstance(v, type):
            if v.__module__ == modname:
                for ck, cv in sorted(vars(v).items()):
                    if not (ck.startswith("__") and ck.endswith("__")):
                        look(owner + "." + v.__name__, ck, cv, modname)
        elif type(v).__module__ in HIST_MODS and hasattr(v, "__dict__"):
            out.append((owner, k, _freeze(v)))

    for name in HIST_MODS:
        mod = sys.modules.get(name)
        if mod is None:
            continue
        for k, v in sorted(vars(mod).items()):
            if not (k.startswith("__") and k.endswith("__")):
                look(name, k, v, name)
    return tuple(out)


def _fetch_table(PW, kind, l):
    """(comparable contents, full contents for the canonical state)."""
    if kind == "w2p":
        r = PW.pinword_to_perm_mapping(l)
        got = {w: tuple(p) for w, p in r.items()}
        return got, (type(r).__name__, tuple(sorted(got.items())))
    r = PW.perm_to_pinword_mapping(l) if kind == "p2w" else PW.perm_to_strict_pinword_mapping(l)
    allk = {tuple(p): tuple(sorted(ws)) for p, ws in r.items()}
    got = {p: set(ws) for p, ws in allk.items() if ws}
    if kind == "strict" and l == 0:
        got = {}
    return got, (type(r).__name__, tuple(sorted(allk.items())))


def _check_table(PW, kind, l):
    """None or a detail dict; second value: contents for the canonical state."""
    ref = ref_tables_cached(l)[TABLE_KINDS.index(kind)]
    try:
        got, full = _fetch_table(PW, kind, l)
    except Exception as exc:  # noqa
        return {"table": [kind, l], "exception": repr(exc)}, None
    if got != ref:
        return dict(_diff_dict(ref, got), table=[kind, l]), full
    return None, full


def _silent_known(part, sub, sig, case, detail):
    pass


def _do_direct(PW, op):
    """Run one direct operation through the ordinary per-case checkers; None or a detail dict."""
    tmp = Partial()
    kind = op[0]
    if kind == "decode":
        w = op[1]
        try:
            got = tuple(PW.pinword_to_perm(w))
        except BaseException as exc:  # noqa
            if isinstance(exc, (KeyboardInterrupt, SystemExit, _Abort)):
                raise
            return {"exception": repr(exc)}
        if got != F.perm_of(w):
            return {"expected": F.perm_of(w), "got": got}
        return None
    if kind == "word":
        check_word(tmp, PW, op[1])
    elif kind == "pair":
        w, u = op[1], op[2]
        check_pair(tmp, PW, w, u, F.geometric_occurrences(w, u), F.letter_occurrences(w, u, False),
                   _silent_known)
    elif kind == "translate":
        (check_sp if F.is_strict(op[1]) else check_m)(tmp, PW, op[1])
    elif kind == "enum":
        check_enum(tmp, op[1])
    elif kind == "interleave":
        check_interleave(tmp, PW, op[1], op[2], op[3])
    else:
        raise ValueError(op)
    if tmp.viols:
        v = tmp.viols[0]
        return {"sub": v["sub"], "case": v["case"], "detail": v["detail"]}
    return None


def run_history(hist, reset=True):
    """Execute the history on a fresh library.  Returns (digest of the canonical state,
    None | (index of the first failing step, detail))."""
    import hashlib
    reloaded = fresh_library() if reset else True
    PW, Perm = _PW(), _Perm()
    built = []
    fail = None
    fulls = {}
    for k, op in enumerate(hist):
        op = list(op)
        bad = None
        if op[0] in IMPLIED:
            kind, l = op
            try:
                if kind == "basis":
                    perms_l = R.perms(l)
                    basis = [perms_l[0], perms_l[-1]]
                    p2w_ref = ref_tables_cached(l)[1]
                    exp = sorted(w for p in basis for w in p2w_ref.get(p, ()))
                    got = sorted(PW.pinwords_for_basis([Perm(p) for p in basis]))
                    if got != exp:
                        bad = {"basis": basis, "n_expected": len(exp), "n_got": len(got),
                               "missing": sorted(set(exp) - set(got))[:4],
                               "extra": sorted(set(got) - set(exp))[:4]}
                else:
                    bad, _ = _check_table(PW, kind, l)
            except Exception as exc:  # noqa
                bad = {"exception": repr(exc)}
            for t in IMPLIED[kind]:
                if (t, l) not in built:
                    built.append((t, l))
        else:
            bad = _do_direct(PW, op)
        # every table built so far, in full
        fulls = {}
        for (t, l) in sorted(built):
            b2, full = _check_table(PW, t, l)
            fulls[(t, l)] = full
            if bad is None and b2 is not None:
                bad = dict(b2, after_step=True)
        if bad is not None and fail is None:
            fail = (k, bad)
    canon = (tuple(sorted(fulls.items())), hidden_state(), reloaded)
    return hashlib.sha1(repr(canon).encode()).hexdigest(), fail


def shard_history(shard):
    """shard = list of (history, op or None): evaluate history + [op]."""
    part = Partial()
    out = []
    for hist, op in shard:
        nh = list(hist) + ([op] if op is not None else [])
        canon, fail = run_history(nh)
        bad = fail is not None
        if bad and fail[0] == len(nh) - 1:
            part.violation("history", {"history": nh},
                           dict(fail[1], failed_step=[fail[0], nh[fail[0]]]))
        part.add(1, 1 if (any(o[0] in IMPLIED for o in nh) and any(o[0] not in IMPLIED for o in nh)) else 0)
        part.bump("history_operations_executed", len(nh))
        out.append((canon, bad))
    return part, out


def explore_histories(ctx, menu, depth):
    """Level-synchronous BFS over histories; the transitions of one level are spread over the
    workers, the parent merges states by canonical form (deterministic, independent of the seed)."""
    root = ctx.pmap(shard_history, [[((), None)], [((), None)]])[0]   # two shards: runs in workers
    seen = {root[0][0]: ()}
    frontier = [()]
    transitions = 0
    per_depth = [1]
    for d in range(depth):
        tasks = [(h, op) for h in frontier for op in menu]
        chunks = [c for c in split(tasks, 64) if c]
        res = ctx.pmap(shard_history, chunks)
        flat = {}
        for chunk, r in zip(chunks, res):
            for (h, op), cb in zip(chunk, r):
                flat[(h, tuple(op))] = cb
        new = []
        for h in frontier:
            for op in menu:
                canon, bad = flat[(h, tuple(op))]
                transitions += 1
                if bad or canon in seen:
                    continue
                nh = h + (tuple(op),)
                seen[canon] = nh
                new.append(nh)
        per_depth.append(len(new))
        frontier = new
        if not frontier:
            break
    return len(seen), transitions, per_depth, [list(map(list, h)) for h in list(seen.values())[-2:]]


def fresh_interpreter_history(hist):
    """Run one history in a genuinely fresh interpreter (no reload involved); None or a detail."""
    import json
    import os
    import subprocess
    import sys
    from ..core import REPO, VERIF
    code = ("import sys, json; sys.path.insert(0, %r); sys.path.insert(1, %r); "
            "from mc.checks import c14; "
            "print('RESULT ' + json.dumps(c14._fresh_entry(json.loads(sys.argv[1]))))" % (REPO, VERIF))
    env = dict(os.environ, PYTHONHASHSEED="0", PYTHONDONTWRITEBYTECODE="1")
    p = subprocess.run([sys.executable, "-B", "-c", code, json.dumps(hist)], env=env,
                       capture_output=True, text=True)
    for line in p.stdout.splitlines():
        if line.startswith("RESULT "):
            return json.loads(line[7:])
    raise RuntimeError("fresh interpreter gave no result:\n" + p.stdout[-1000:] + p.stderr[-2000:])


def _fresh_entry(hist):
    from ..core import jsonable
    _, fail = run_history(hist, reset=False)
    return None if fail is None else jsonable({"failed_step": [fail[0], hist[fail[0]]], **fail[1]})


def shard_fresh(shard):
    part = Partial()
    for hist in shard:
        bad = fresh_interpreter_history(hist)
        if bad is not None:
            part.violation("history_fresh", {"history": hist, "fresh_interpreter": True}, bad)
        part.add(1, 1)
        part.bump("fresh_interpreter_histories", 1)
    return part


# --------------------------------------------------------------------------------------------
# order: the same queries on one word w, asked in several orders, each from a reset library
# --------------------------------------------------------------------------------------------
# `contain` asks, for every w, the words u by increasing length and sweeps start indices upwards,
# in a worker that has answered thousands of other queries before.  Here every (w, order) starts
# from a re-executed library and the whole battery of queries on that w is asked in one of the
# orders below; every answer is compared with the same geometric reference.
#
#   multi_first_asc    occurrences+contains on every multi-factor u (ascending), then the strict u
#                      (ascending) with start indices DEscending, then contains_sp
#   multi_first_desc   contains+occurrences on every multi-factor u (descending length, then lex),
#                      then the strict u (descending) with start indices ascending
#   strict_first_desc  strict u first (descending, start indices descending), then multi-factor
#                      u (descending)
#   desc_mixed         all u by descending (length, lex); per u: contains, occurrences, and for a
#                      strict u the _sp variants with start indices descending
#   reflect_sorted     per permutation (ascending): any(pinword_contains(w, u)) over its pin words
#                      in sorted order (stops at the first hit, as a caller would)
#   reflect_reverse    per permutation (descending): the same over its pin words in reverse order

ORDERS = ("multi_first_asc", "multi_first_desc", "strict_first_desc", "desc_mixed",
          "reflect_sorted", "reflect_reverse")


def order_queries(w, order, maxu):
    U = [u for k in range(0, maxu + 1) for u in WORDS[k]]
    strict = [u for u in U if len(LENS[u]) == 1]
    multi = [u for u in U if len(LENS[u]) != 1]
    n = len(w)
    desc = lambda us: sorted(us, key=lambda u: (-len(u), [-ord(c) for c in u]))  # noqa: E731
    out = []

    def sp(u, starts):
        for s in starts:
            out.append(("occ_sp", u, s))
        out.append(("con_sp", u))
        out.append(("occ_sp", u, None))

    if order == "multi_first_asc":
        for u in multi:
            out.append(("occ", u))
            out.append(("con", u))
        for u in strict:
            sp(u, range(n, -1, -1))
            out.append(("con", u))
            out.append(("occ", u))
    elif order == "multi_first_desc":
        for u in desc(multi):
            out.append(("con", u))
            out.append(("occ", u))
        for u in desc(strict):
            out.append(("occ", u))
            sp(u, range(0, n + 1))
            out.append(("con", u))
    elif order == "strict_first_desc":
        for u in desc(strict):
            sp(u, range(n, -1, -1))
            out.append(("con", u))
        for u in desc(multi):
            out.append(("con", u))
            out.append(("occ", u))
        for u in strict:
            out.append(("occ", u))
    elif order == "desc_mixed":
        for u in desc(U):
            out.append(("con", u))
            out.append(("occ", u))
            if len(LENS[u]) == 1:
                sp(u, range(n, -1, -1))
    elif order in ("reflect_sorted", "reflect_reverse"):
        perms = [p for k in range(0, maxu + 1) for p in R.perms(k)]
        rev = order == "reflect_reverse"
        for p in (reversed(perms) if rev else perms):
            us = sorted(WORDS_OF_PERM.get(p, ()), reverse=rev)
            out.append(("reflect", p, us))
    else:
        raise ValueError(order)
    return out


def run_order(part, w, order, maxu, known):
    """All queries of one order on one word, from a reset library.  Reports the first failing query."""
    fresh_library()
    PW = _PW()
    G, D, _, _ = w_tables(w, maxu)
    case = {"w": w, "order": order, "maxu": maxu}
    contained = None
    nq = 0
    for k, q in enumerate(order_queries(w, order, maxu)):
        kind, u = q[0], q[1]
        nq += 1
        try:
            if kind == "occ":
                got, exp, dev = set(PW.pinword_occurrences(w, u)), set(G.get(u, ())), set(D.get(u, ()))
                sig = SIG_OCC
            elif kind == "con":
                got, exp, dev = PW.pinword_contains(w, u), bool(G.get(u)), bool(D.get(u))
                sig = SIG_CON
            elif kind == "occ_sp":
                start = q[2]
                e = [st[0] for st in G.get(u, ())]
                exp = set(s for s in e if start is None or s >= start)
                got = set(PW.pinword_occurrences_sp(w, u) if start is None
                          else PW.pinword_occurrences_sp(w, u, start))
                dev, sig = exp, None
            elif kind == "con_sp":
                got, exp = PW.pinword_contains_sp(w, u), bool(G.get(u))
                dev, sig = exp, None
            else:   # reflect
                if contained is None:
                    contained = F.patterns_of(F.perm_of(w))
                us = q[2]
                got = any(PW.pinword_contains(w, x) for x in us)
                exp = u in contained
                dev = any(bool(D.get(x)) for x in us)
                sig = SIG_CON
        except Exception as exc:  # noqa
            part.violation("order", case, {"step": k, "query": list(q[:2]) + list(q[2:3] if kind == "occ_sp" else []),
                                           "exception": repr(exc)})
            return nq
        if got != exp:
            if sig is not None and got == dev:
                known(part, "order", sig, case, {"step": k, "query": q[:2]})
                continue
            part.violation("order", case, {"step": k, "query": list(q[:3]) if kind == "occ_sp" else list(q[:2]),
                                           "expected": exp, "got": got})
            return nq
    return nq


def shard_order(shard):
    n, prefix, maxu = shard
    part = Partial()
    known = Known()
    words = ref_words(n, prefix)
    nq = 0
    for w in words:
        for order in ORDERS:
            nq += run_order(part, w, order, maxu, known)
    part.add(len(words) * len(ORDERS), len(words) * len(ORDERS) if n >= 2 else 0)
    part.bump("order_word_order_runs", len(words) * len(ORDERS))
    part.bump("order_queries", nq)
    part.bump("order_known_cases", sum(known.count.values()))
    return part


# --------------------------------------------------------------------------------------------
# scale: long PERIODIC words (spirals, zigzags, the other period-4 runs), fully enumerated
# --------------------------------------------------------------------------------------------
# Exhaustive enumeration stops at length 5-7; a search that mishandles self-overlapping direction
# runs needs a factor of >= 6 letters inside a word of >= 10.  The family:
#   tails  T(m)   = every prefix, of length 1..m, of the infinite repetition of a primitive period
#                   (period 2: the 8 zigzags; period 4: the 8 spirals and, in the thorough tier, the 16
#                   other alternating words of length 4)
#   words  w      = p + c + t   with p in PRE (the empty word and the four numerals), c any of the 8
#                   letters, t in T(Lmax - |p| - 1) or empty, whenever that is a pin word
#   strict u      = q + t       with q a numeral, t in T(9) or empty
#   two-factor u' = r + u       with r a numeral
# Oracles: (sp) pinword_occurrences_sp against Lemma 3.12 evaluated directly on the reference
# quadrants, for every pair (default start) and, where the tail of u has >= 3 letters (shorter runs
# cannot overlap themselves) and occurs in w at all, for every start index; (occ) pinword_occurrences / pinword_contains / pinword_contains_sp on those candidate
# pairs, for u and for the two-factor u', against the factor-by-factor letter test (gap = source
# paper, no gap = deviation model of the known finding); (perm, thorough) on a thinned family of
# spirals behind a rigid prefix the geometric ground truth: perm(u) <= perm(w) by brute force  <=>
# some pin word of perm(u) (all of them enumerated by the reference) is found by pinword_contains.

SCALE_U = []
SCALE_SWEEP = [True]     # every start index on candidate pairs (thorough tier)


def scale_periods(all_periods):
    ps = F.alternating_periods()
    return ps if all_periods else [p for p in ps if len(p) == 2 or F.is_spiral(p)]


def scale_tails(periods, m):
    out = {""}
    for p in periods:
        t = p * (m // len(p) + 2)
        for k in range(1, m + 1):
            out.add(t[:k])
    return out


def scale_words(periods, lmax):
    out = set()
    for p in [""] + list(F.QUADS):
        for c in F.ALPHABET:
            for t in scale_tails(periods, lmax - len(p) - 1):
                w = p + c + t
                if F.is_pinword(w):
                    out.add(w)
    return sorted(out, key=lambda w: (len(w), w))


def scale_us(periods, k):
    return sorted((q + t for q in F.QUADS for t in scale_tails(periods, k)), key=lambda u: (len(u), u))


def def_sp(w, q, u, start=0):
    """Lemma 3.12, literally."""
    k = len(u)
    return [i for i in range(start, len(w)) if q[i] == u[0] and w[i + 1:i + k] == u[1:]]


def check_scale_pair(part, PW, w, q, u, known, every_start=None, naive=False):
    """One strict u against one long w.  Returns True if the pair is a candidate (tail occurs)."""
    exp = def_sp(w, q, u)
    try:
        got = list(PW.pinword_occurrences_sp(w, u))
    except Exception as exc:  # noqa
        part.violation("scale_sp", {"w": w, "u": u, "start": None}, {"exception": repr(exc)})
        got = exp
    if got != exp and set(got) != set(exp):
        part.violation("scale_sp", {"w": w, "u": u, "start": None}, {"expected": exp, "got": got})
    cand = len(u) >= 4 and u[1:] in w[1:]
    if every_start is None and not cand:
        return cand
    for start in (range(1, len(w) + 1) if (every_start or (every_start is None and SCALE_SWEEP[0])) else ()):
        e = [i for i in exp if i >= start]
        try:
            g = list(PW.pinword_occurrences_sp(w, u, start))
        except Exception as exc:  # noqa
            part.violation("scale_sp", {"w": w, "u": u, "start": start}, {"exception": repr(exc)})
            continue
        if g != e and set(g) != set(e):
            part.violation("scale_sp", {"w": w, "u": u, "start": start}, {"expected": e, "got": g})
    try:
        cs = PW.pinword_contains_sp(w, u)
        if cs != bool(exp):
            part.violation("scale_contains_sp", {"w": w, "u": u}, {"expected": bool(exp), "got": cs})
    except Exception as exc:  # noqa
        part.violation("scale_contains_sp", {"w": w, "u": u}, {"exception": repr(exc)})
    for r in ("",) + tuple(F.QUADS):
        uu = r + u
        if naive:
            P = F.letter_occurrences(w, uu, True, q)
            D = F.letter_occurrences(w, uu, False, q)
        elif r == "":
            P = D = [(i,) for i in exp]
        else:
            # factor r (one numeral) at i, then the strict factor at s >= i + 1; the source paper
            # forbids s == i + 1 when w[s] is a direction letter
            D = [(i, s_) for i in range(len(w)) if q[i] == r for s_ in exp if s_ > i]
            P = [(i, s_) for (i, s_) in D if not (s_ == i + 1 and w[s_] in F.DIRS)]
        case = {"w": w, "u": uu}
        try:
            C = list(PW.pinword_occurrences(w, uu))
            if C != P and set(C) != set(P):
                if set(C) == set(D):
                    known(part, "scale_occ", SIG_OCC, case, {"expected": P, "got": C})
                else:
                    part.violation("scale_occ", case, {"expected": P, "got": C, "deviation_model": D})
            c = PW.pinword_contains(w, uu)
            if c != bool(P):
                if c == bool(D):
                    known(part, "scale_contains", SIG_CON, case, {"expected": bool(P), "got": c})
                else:
                    part.violation("scale_contains", case, {"expected": bool(P), "got": c})
        except Exception as exc:  # noqa
            part.violation("scale_occ", case, {"exception": repr(exc)})
    return cand


def shard_scale(shard):
    part = Partial()
    known = Known()
    PW = _PW()
    npairs = ncand = 0
    for w in shard:
        q = F.quadrants(w)
        for u in SCALE_U:
            if check_scale_pair(part, PW, w, q, u, known):
                ncand += 1
        npairs += len(SCALE_U)
    part.add(npairs, ncand)
    part.bump("scale_pairs", npairs)
    part.bump("scale_candidate_pairs", ncand)
    part.bump("scale_words", len(shard))
    if shard and len(shard[-1]) >= 12:
        w = shard[-1]
        q = F.quadrants(w)
        best = max(SCALE_U, key=lambda u: (len(def_sp(w, q, u)) > 0, len(u)))
        part.sample({"sub": "scale", "w": w, "u": best, "occurrences_sp": def_sp(w, q, best)}, cap=1)
    return part, known.payload()


def scale_perm_family(rigid_numerals):
    """(w, u): u = rp + q + T[:5], w = rp + c + T[:9]; rp = numeral + first three letters of a spiral
    starting with U, T a spiral, q and c numerals."""
    spirals = [p for p in F.alternating_periods() if F.is_spiral(p)]
    out = []
    for rq in rigid_numerals:
        for rs in [s for s in spirals if s[0] == "U"]:
            rp = rq + rs[:3]
            for t in spirals:
                tt = t * 3
                for q in F.QUADS:
                    u = rp + q + tt[:5]
                    if not F.is_pinword(u):
                        continue
                    ws = [rp + c + tt[:9] for c in F.QUADS]
                    out.append((u, [w for w in ws if F.is_pinword(w)]))
    return out


def check_scale_perm(part, PW, w, u, us, known):
    pw_, pu = F.perm_of(w), F.perm_of(u)
    exp = F.contains_perm(pw_, pu)
    case = {"w": w, "u": u}
    try:
        found = [x for x in us if PW.pinword_contains(w, x)]
    except Exception as exc:  # noqa
        part.violation("scale_perm", case, {"exception": repr(exc)})
        return
    got = bool(found)
    if got != exp:
        q = F.quadrants(w)
        dev = any(bool(F.letter_occurrences(w, x, False, q)) for x in us)
        det = {"perm_of_w": pw_, "perm_of_u": pu, "expected_contained": exp, "pin_words_of_perm_u": len(us),
               "found": found[:4]}
        if got == dev:
            known(part, "scale_perm", SIG_CON, case, det)
        else:
            part.violation("scale_perm", case, det)


def shard_scale_perm(shard):
    part = Partial()
    known = Known()
    PW = _PW()
    for u, ws in shard:
        us = F.pin_words_of_perm(F.perm_of(u))
        if u not in us:
            raise RuntimeError("reference self test: %r is not among the pin words of its permutation" % u)
        for w in ws:
            check_scale_perm(part, PW, w, u, us, known)
        part.add(len(ws), len(ws))
        part.bump("scale_perm_pairs", len(ws))
        part.bump("scale_perm_pin_words_enumerated", len(us))
    return part, known.payload()


# --------------------------------------------------------------------------------------------
# forms: the same logical input in every argument form the signatures admit
# --------------------------------------------------------------------------------------------
# pinwords_for_basis(basis) iterates "any iterable of Perm": list, tuple, set, frozenset, dict
# keys, one-shot iterator, generator expression, map object, reversed, repeated elements, mixed
# lengths, the library's Basis object and Perm.of_length generator.  Every other entry point takes
# str / int: positional, keyword (also in swapped keyword order), through an instance instead of the
# class.  Oracle: the reference answer, whatever the form.

def _basis_forms(seq, Perm):
    """(name, argument, effective sequence of perm tuples)."""
    mk = lambda: [Perm(p) for p in seq]          # noqa: E731
    uniq = list(dict.fromkeys(seq))
    yield "list", mk(), seq
    yield "tuple", tuple(mk()), seq
    yield "iter", iter(mk()), seq
    yield "generator", (Perm(p) for p in seq), seq
    yield "map", map(Perm, seq), seq
    yield "reversed", reversed(mk()), seq[::-1]
    yield "set", set(mk()), uniq
    yield "frozenset", frozenset(mk()), uniq
    yield "dict_keys", dict.fromkeys(mk()).keys(), uniq
    yield "keyword", ("kw", mk()), seq


def check_basis_forms(part, PW, Perm, seq, only_form=None):
    for name, arg, eff in _basis_forms(list(seq), Perm):
        if only_form is not None and name != only_form:
            continue
        exp = sorted(w for p in eff for w in ref_tables_cached(len(p))[1].get(tuple(p), ()))
        try:
            if name == "keyword":
                got = PW.pinwords_for_basis(basis=arg[1])
            else:
                got = PW.pinwords_for_basis(arg)
            got = sorted(got)
        except Exception as exc:  # noqa
            part.violation("forms", {"fn": "pinwords_for_basis", "basis": list(seq), "form": name},
                           {"exception": repr(exc)})
            continue
        if got != exp:
            part.violation("forms", {"fn": "pinwords_for_basis", "basis": list(seq), "form": name},
                           {"n_expected": len(exp), "n_got": len(got),
                            "missing": sorted(set(exp) - set(got))[:4], "extra": sorted(set(got) - set(exp))[:4]})


def check_library_basis_forms(part, PW, Perm, L):
    """The library's own containers / generators as `basis`."""
    p2w = ref_tables_cached(L)[1]
    from permuta.perm_sets.basis import Basis
    cases = [("Perm.of_length", lambda: Perm.of_length(L), R.perms(L))]
    pool = R.perms(L)
    for k in (1, 2):
        for sub in itertools.combinations(pool, k):
            b = Basis(*[Perm(p) for p in sub])
            cases.append(("Basis%r" % (sub,), (lambda b=b: b), [tuple(x) for x in b]))
    for name, mk, eff in cases:
        exp = sorted(w for p in eff for w in p2w.get(tuple(p), ()))
        try:
            got = sorted(PW.pinwords_for_basis(mk()))
        except Exception as exc:  # noqa
            part.violation("forms", {"fn": "pinwords_for_basis", "length": L, "form": name}, {"exception": repr(exc)})
            continue
        if got != exp:
            part.violation("forms", {"fn": "pinwords_for_basis", "length": L, "form": name},
                           {"n_expected": len(exp), "n_got": len(got)})
        part.add(1, 1)


def _accept(got, G, D):
    """Containment answers: the geometric one, or (known finding, counted elsewhere) the deviation."""
    return got == G or got == D


def check_word_forms(part, PW, w, us):
    """Keyword / instance / swapped-keyword forms of every str-taking entry point."""
    inst = PW()
    case = {"fn": "str entry points", "w": w}
    bad = []
    try:
        exp = F.perm_of(w)
        if tuple(PW.pinword_to_perm(word=w)) != exp or tuple(inst.pinword_to_perm(w)) != exp:
            bad.append("pinword_to_perm")
        q = F.quadrants(w)
        for i in range(len(w)):
            if PW.quadrant(word=w, ind=i) != q[i] or PW.quadrant(ind=i, word=w) != q[i] or inst.quadrant(w, i) != q[i]:
                bad.append("quadrant[%d]" % i)
        if list(PW.factor_pinword(word=w)) != F.factors(w) or list(inst.factor_pinword(w)) != F.factors(w):
            bad.append("factor_pinword")
        for u in us:
            G = F.geometric_occurrences(w, u)
            D = F.letter_occurrences(w, u, False)
            for name, got in (("occurrences(word=,u_word=)", PW.pinword_occurrences(word=w, u_word=u)),
                              ("occurrences(u_word=,word=)", PW.pinword_occurrences(u_word=u, word=w)),
                              ("instance.occurrences", inst.pinword_occurrences(w, u))):
                if not _accept(sorted(got), sorted(G), sorted(D)):
                    bad.append("%s u=%s" % (name, u))
            for name, got in (("contains(word=,u_word=)", PW.pinword_contains(word=w, u_word=u)),
                              ("contains(u_word=,word=)", PW.pinword_contains(u_word=u, word=w)),
                              ("instance.contains", inst.pinword_contains(w, u))):
                if not _accept(got, bool(G), bool(D)):
                    bad.append("%s u=%s" % (name, u))
            if F.is_strict(u):
                e = [st[0] for st in G]
                for s in range(len(w) + 1):
                    es = [x for x in e if x >= s]
                    if sorted(PW.pinword_occurrences_sp(word=w, u_word=u, start_index=s)) != es or \
                       sorted(PW.pinword_occurrences_sp(w, u, start_index=s)) != es or \
                       sorted(inst.pinword_occurrences_sp(start_index=s, u_word=u, word=w)) != es:
                        bad.append("occurrences_sp u=%s start=%d" % (u, s))
                if PW.pinword_contains_sp(word=w, u_word=u) != bool(e) or inst.pinword_contains_sp(u_word=u, word=w) != bool(e):
                    bad.append("contains_sp u=%s" % u)
    except Exception as exc:  # noqa
        part.violation("forms", case, {"exception": repr(exc), "wrong_so_far": bad[:5]})
        return
    if bad:
        part.violation("forms", case, {"wrong": bad[:8]})


def check_misc_forms(part, PW, L):
    """Keyword forms of the int-taking entry points and of the translations."""
    inst = PW()
    bad = []
    case = {"fn": "int entry points", "length": L}
    try:
        ref = sorted(ref_words(L))
        if sorted(PW.pinwords_of_length(length=L)) != ref or sorted(inst.pinwords_of_length(L)) != ref:
            bad.append("pinwords_of_length")
        if L >= 1 and sorted(PW.strict_pinwords_of_length(length=L)) != [w for w in ref if F.is_strict(w)]:
            bad.append("strict_pinwords_of_length")
        w2p, p2w, strict = ref_tables_cached(L)
        for name, call in (("keyword", lambda f: f(length=L)), ("instance", lambda f: f(L))):
            src = PW if name == "keyword" else inst
            if {w: tuple(p) for w, p in call(src.pinword_to_perm_mapping).items()} != w2p:
                bad.append("pinword_to_perm_mapping/" + name)
            if {tuple(p): set(ws) for p, ws in call(src.perm_to_pinword_mapping).items() if ws} != p2w:
                bad.append("perm_to_pinword_mapping/" + name)
            got = {tuple(p): set(ws) for p, ws in call(src.perm_to_strict_pinword_mapping).items() if ws}
            if L >= 1 and got != strict:
                bad.append("perm_to_strict_pinword_mapping/" + name)
        for u in strict_words(L) if L >= 1 else []:
            if sorted(PW.sp_to_m(word=u)) != ref_sp_to_m(u) or sorted(inst.sp_to_m(u)) != ref_sp_to_m(u):
                bad.append("sp_to_m %s" % u)
            if not PW.is_strict_pinword(word=u):
                bad.append("is_strict_pinword %s" % u)
        for m in F.m_words(L) if L >= 2 else []:
            if PW.m_to_sp(word=m) != ref_m_to_sp(m) or inst.m_to_sp(m) != ref_m_to_sp(m):
                bad.append("m_to_sp %s" % m)
    except Exception as exc:  # noqa
        part.violation("forms", case, {"exception": repr(exc), "wrong_so_far": bad[:5]})
        return
    if bad:
        part.violation("forms", case, {"wrong": bad[:8]})


def shard_forms(shard):
    kind = shard[0]
    PW, Perm = _PW(), _Perm()
    part = Partial()
    if kind == "basis":
        for seq in shard[1]:
            check_basis_forms(part, PW, Perm, seq)
        part.add(10 * len(shard[1]), 10 * sum(1 for s in shard[1] if len(s) >= 2))
        part.bump("forms_basis_sequences", len(shard[1]))
    elif kind == "libbasis":
        check_library_basis_forms(part, PW, Perm, shard[1])
    elif kind == "words":
        us = [u for k in range(0, 3) for u in ref_words(k)]
        for w in shard[1]:
            check_word_forms(part, PW, w, us)
        part.add(len(shard[1]) * len(us), len(shard[1]) * len(us))
        part.bump("forms_word_pairs", len(shard[1]) * len(us))
    else:
        check_misc_forms(part, PW, shard[1])
        part.add(1, 1)
    return part


# --------------------------------------------------------------------------------------------
# fresh: results that are mutable containers are damaged in place, then the question is asked again
# --------------------------------------------------------------------------------------------

SENTINEL = "<damaged by the caller>"


def _damage(x, depth=0):
    """Damage a returned container in place at every nesting level; returns True if anything
    mutable was found."""
    hit = False
    if depth > 4:
        return hit
    if isinstance(x, dict):
        for v in list(x.values()):
            hit |= _damage(v, depth + 1)
        x.clear()
        x[SENTINEL] = SENTINEL
        return True
    if isinstance(x, list):
        for v in list(x):
            hit |= _damage(v, depth + 1)
        x.reverse()
        x.clear()
        x.append(SENTINEL)
        return True
    if isinstance(x, set):
        x.clear()
        x.add(SENTINEL)
        return True
    if isinstance(x, (tuple, frozenset)):
        for v in x:
            hit |= _damage(v, depth + 1)
    return hit


def check_fresh_word(part, PW, w, us):
    """factor_pinword / occurrences lists: check, damage, ask again along several routes."""
    inst = PW()
    w2 = "".join(list(w))           # an equal, distinct str object
    routes = (("same object", lambda: PW.factor_pinword(w)), ("equal object", lambda: PW.factor_pinword(w2)),
              ("instance", lambda: inst.factor_pinword(w)), ("keyword", lambda: PW.factor_pinword(word=w2)))
    exp = F.factors(w)
    try:
        for rounds in range(2):
            for name, call in routes:
                r = call()
                if list(r) != exp:
                    part.violation("fresh", {"fn": "factor_pinword", "w": w},
                                   {"route": name, "round": rounds, "expected": exp, "got": list(r)[:8]})
                    return
                _damage(r)
        for u in us:
            G, D = sorted(F.geometric_occurrences(w, u)), sorted(F.letter_occurrences(w, u, False))
            for rounds in range(2):
                for name, call in (("same", lambda: PW.pinword_occurrences(w, u)),
                                   ("equal", lambda: PW.pinword_occurrences(w2, "".join(list(u)))),
                                   ("instance", lambda: inst.pinword_occurrences(w, u))):
                    r = call()
                    lst = r if isinstance(r, list) else list(r)
                    if not _accept(sorted(map(tuple, lst)), G, D):
                        part.violation("fresh", {"fn": "pinword_occurrences", "w": w, "u": u},
                                       {"route": name, "round": rounds, "expected": G, "got": lst[:8]})
                        return
                    _damage(lst)
                    if isinstance(r, (list, dict, set)):
                        _damage(r)
            t = PW.sp_to_m(u) if F.is_strict(u) else None
            if t is not None:
                if sorted(t) != ref_sp_to_m(u):
                    part.violation("fresh", {"fn": "sp_to_m", "w": u}, {"got": list(t)})
                    return
                if _damage(t) or isinstance(t, list) and _damage(t):
                    pass
                if sorted(PW.sp_to_m(u)) != ref_sp_to_m(u):
                    part.violation("fresh", {"fn": "sp_to_m", "w": u}, {"after_damage": list(PW.sp_to_m(u))})
                    return
    except Exception as exc:  # noqa
        part.violation("fresh", {"fn": "factor_pinword/pinword_occurrences", "w": w}, {"exception": repr(exc)})


def check_fresh_basis(part, PW, Perm, seq):
    exp = sorted(w for p in seq for w in ref_tables_cached(len(p))[1].get(tuple(p), ()))
    basis = [Perm(p) for p in seq]
    inst = PW()
    routes = (("same object", lambda: PW.pinwords_for_basis(basis)),
              ("equal objects", lambda: PW.pinwords_for_basis([Perm(tuple(p)) for p in seq])),
              ("tuple", lambda: PW.pinwords_for_basis(tuple(Perm(p) for p in seq))),
              ("instance", lambda: inst.pinwords_for_basis(basis)))
    try:
        for rounds in range(2):
            for name, call in routes:
                r = call()
                if sorted(r) != exp:
                    part.violation("fresh", {"fn": "pinwords_for_basis", "basis": list(seq)},
                                   {"route": name, "round": rounds, "n_expected": len(exp), "got": list(r)[:6]})
                    return
                _damage(r)
    except Exception as exc:  # noqa
        part.violation("fresh", {"fn": "pinwords_for_basis", "basis": list(seq)}, {"exception": repr(exc)})


def check_fresh_enum(part, PW, L):
    ref = sorted(ref_words(L))
    try:
        for rounds in range(2):
            for name, call in (("pinwords_of_length", lambda: PW.pinwords_of_length(L)),
                               ("strict_pinwords_of_length", lambda: PW.strict_pinwords_of_length(L))):
                r = call()
                lst = r if isinstance(r, list) else list(r)
                e = ref if name == "pinwords_of_length" else [w for w in ref if F.is_strict(w) or w == ""]
                if sorted(lst) != e and not (L == 0 and name.startswith("strict")):
                    part.violation("fresh", {"fn": name, "length": L}, {"round": rounds, "n_got": len(lst)})
                    return
                _damage(lst)
                if isinstance(r, (list, dict, set)):
                    _damage(r)
    except Exception as exc:  # noqa
        part.violation("fresh", {"fn": "pinwords_of_length", "length": L}, {"exception": repr(exc)})


def check_fresh_tables(part, PW, Perm, L, which, how):
    """OFF by default (see run): the three cached tables are handed out as shared dict objects; the
    caller damages what it received, then everything is asked again."""
    fresh_library()
    PW = _PW()
    funcs = {"w2p": PW.pinword_to_perm_mapping, "p2w": PW.perm_to_pinword_mapping,
             "strict": PW.perm_to_strict_pinword_mapping}
    case = {"length": L, "damaged_table": which, "damage": how}
    try:
        r = funcs[which](L)
        bad, _ = _check_table(PW, which, L)
        if bad is not None:
            part.violation("fresh_tables", case, dict(bad, before_damage=True))
            return
        if how == "clear_table":
            r.clear()
        elif how == "clear_one_value":
            k = sorted(r, key=repr)[0]
            if isinstance(r[k], set):
                r[k].clear()
            else:
                r[k] = SENTINEL
        else:
            _damage(r)
        for t in TABLE_KINDS:
            bad, _ = _check_table(PW, t, L)
            if bad is not None:
                part.violation("fresh_tables", case, dict(bad, asked_again=t))
                return
        p = R.perms(L)[0]
        exp = sorted(ref_tables_cached(L)[1].get(p, ()))
        got = sorted(PW.pinwords_for_basis([Perm(p)]))
        if got != exp:
            part.violation("fresh_tables", case, {"asked_again": "pinwords_for_basis", "basis": [p],
                                                  "n_expected": len(exp), "got": got[:6]})
    except Exception as exc:  # noqa
        part.violation("fresh_tables", case, {"exception": repr(exc)})


def shard_fresh_results(shard):
    kind = shard[0]
    PW, Perm = _PW(), _Perm()
    part = Partial()
    if kind == "words":
        us = [u for k in range(0, 3) for u in ref_words(k)]
        for w in shard[1]:
            check_fresh_word(part, PW, w, us)
        part.add(len(shard[1]) * (1 + len(us)), len(shard[1]) * len(us))
    elif kind == "basis":
        for seq in shard[1]:
            check_fresh_basis(part, PW, Perm, seq)
        part.add(len(shard[1]), len(shard[1]))
    elif kind == "enum":
        check_fresh_enum(part, PW, shard[1])
        part.add(1, 1)
    elif kind == "tables":
        for L, which, how in shard[1]:
            check_fresh_tables(part, PW, Perm, L, which, how)
        part.add(len(shard[1]), len(shard[1]))
    part.bump("fresh_cases", part.evals)
    return part


# --------------------------------------------------------------------------------------------
# abort: an exception out of the k-th library call of an operation, for EVERY k; then read back
# --------------------------------------------------------------------------------------------

def _run_with_abort(fn, k, root):
    """Run fn(); raise _Abort at the k-th 'call' event of a frame whose code lives under root
    (k=None: never).  Returns (finished?, number of such events seen)."""
    import sys
    seen = [0]

    def tracer(frame, event, arg):
        if event == "call" and frame.f_code.co_filename.startswith(root):
            seen[0] += 1
            if seen[0] == k:
                sys.settrace(None)
                raise _Abort()
        return None

    sys.settrace(tracer)
    try:
        fn()
        return True, seen[0]
    except _Abort:
        return False, seen[0]
    finally:
        sys.settrace(None)


def abort_read_back(op, order):
    """Two read-back orders: tables first (nothing may 'repair' shared state before the next
    first-time build) and direct entry points first."""
    lengths = sorted({1, 2} | ({op[1]} if op[0] in IMPLIED else set()))
    direct = ([["decode", w] for w in DEC_WORDS]
              + [["word", "2RU4L"], ["pair", "1L3D", "1L3"], ["pair", "244U", "4U"], ["translate", "2UL"]])
    tabs = table_ops(lengths)
    if order == "tables_first":
        return tabs + [list(op)] + direct
    return direct + [list(op)] + tabs


ABORT_ORDERS = ("tables_first", "direct_first")


def abort_attempt(warm, op, k, order="tables_first"):
    """Fresh library, warm-up history, the operation with an abort at call k, then the read-back
    history on the SAME library state.  Returns (finished, events, failure of the read-back)."""
    import os
    import signal
    import sys
    from ..core import REPO
    root = os.path.join(os.path.abspath(REPO), "permuta") + os.sep
    fresh_library()
    if warm:
        run_history(warm, reset=False)
    finished, events = _run_with_abort(lambda: run_history([op], reset=False), k, root)
    if k is None:
        return finished, events, None

    def on_alarm(signum, frame):
        raise TimeoutError("read-back did not finish within 30 s")

    old = signal.signal(signal.SIGALRM, on_alarm)
    signal.alarm(30)
    try:
        _, fail = run_history(abort_read_back(op, order), reset=False)
    except TimeoutError as exc:
        fail = (-1, {"hang": str(exc)})
    finally:
        signal.alarm(0)
        signal.signal(signal.SIGALRM, old)
    return finished, events, fail


def shard_abort(shard):
    import sys
    warm, op, part_i, nparts = shard
    part = Partial()
    old_hook = sys.unraisablehook
    sys.unraisablehook = lambda unraisable: None
    try:
        _, total, _ = abort_attempt(warm, op, None)
        n = 0
        for k in range(1 + part_i, total + 1, nparts):
            for order in ABORT_ORDERS:
                finished, _, fail = abort_attempt(warm, op, k, order)
                if fail is not None:
                    rb = abort_read_back(op, order)
                    part.violation("abort", {"warm": warm, "op": op, "abort_at_call": k, "read_back": order},
                                   dict(fail[1], read_back_step=[fail[0], rb[fail[0]] if 0 <= fail[0] < len(rb) else None],
                                        calls_in_undisturbed_run=total))
            n += 1
        part.add(n, n)
        part.bump("abort_injection_points", n)
    finally:
        sys.unraisablehook = old_hook
    return part, total


# --------------------------------------------------------------------------------------------
# run
# --------------------------------------------------------------------------------------------

def json_key(warm, op):
    return "%s | %s" % (" ".join(map(str, sum(warm, []))) or "-", " ".join(map(str, op)))


def _case_size(v):
    def sz(x):
        if isinstance(x, str):
            return len(x)
        if isinstance(x, (list, tuple)):
            return sum(sz(y) for y in x) + len(x)
        if isinstance(x, dict):
            return sum(sz(y) for y in x.values())
        if isinstance(x, bool) or x is None:
            return 0
        if isinstance(x, int):
            return x
        return 1
    return sz(v["case"])


def op_sequences(menu, maxlen):
    out = []
    for k in range(1, maxlen + 1):
        out.extend(itertools.product(menu, repeat=k))
    return [list(s) for s in out]


def split(seq, nparts):
    nparts = max(1, min(nparts, len(seq)))
    return [seq[i::nparts] for i in range(nparts)]


def run(ctx, only=None):
    def want(name):
        return only is None or name in only

    quick = ctx.quick
    ctx.rule = ("decode: pin words with at least one separating pin; tables: histories of >= 2 different "
                "table operations at length >= 2; translate: strict words of length >= 2 / M words of "
                "length >= 3; contain: pairs (w, u) with at least one geometric occurrence and at least "
                "one rejected placement of the same factor lengths, plus (w, perm) with 0 < |perm| < |w| "
                "and perm a pin permutation; interleave: both generators non-empty.  Every case is "
                "enumerated once.")
    ctx.assumptions = [
        "reference model mc/ref_c14.py: pins as insertions into x-order and y-order lists; "
        "encode(decode(w)) == w verified for every word used",
        "an occurrence of u in w = factor positions whose pins, with the origin of w, are "
        "order-isomorphic point by point to the origin and pins of u; the paper's letter test "
        "with the gap condition equals this on every pair explored (verified in every run)",
        "lists of occurrences are compared as sets (order and multiplicity are not part of the property)",
        "the empty word: strict-ness of '' and pinword_occurrences_sp(w, '') are not demanded",
        "words and permutations beyond the stated lengths are not explored",
    ]
    Ldec = 5 if quick else 7
    Ltab = 5 if quick else 6
    Lhist = 3 if quick else 4
    Lsp = 7 if quick else 9
    Lm = 9 if quick else 11
    # (|w|, max |u|)
    plan = [(0, 1), (1, 2), (2, 3), (3, 4), (4, 4)] + ([(5, 3)] if quick else [(5, 5), (6, 3)])
    build_globals(max(5 if not quick else 4, 3))
    ctx.bump("selftest_words_encode_decode", sum(len(v) for v in WORDS.values()))

    if want("selftest"):
        ctx.bounds["selftest"] = ("reference only: encode(decode(w)) == w and distinct configurations for "
                                  "every pin word of length <= %d; fast tables == naive definitions for all "
                                  "pairs with |u| <= |w| <= 3" % max(WORDS))
        res = ctx.pmap(shard_selftest, [(n, p) for n in range(0, 4) for p in prefixes(n, 1)])
        ctx.section("selftest", pairs=ctx.counters.get("selftest_pairs", 0))

    if want("enum"):
        e0 = ctx.evals
        ctx.pmap(shard_enum, list(range(0, Ldec + 1)))
        ctx.bounds["enum"] = "all 8^L strings, L = 0..%d" % Ldec
        ctx.section("enum", evaluations=ctx.evals - e0)

    if want("decode"):
        e0 = ctx.evals
        shards = [(n, p) for n in range(0, Ldec + 1) for p in prefixes(n, 3 if n >= 6 else 2)]
        ctx.pmap(shard_decode, shards)
        ctx.bounds["decode"] = ("pinword_to_perm, quadrant at every index, factor_pinword: every pin "
                                "word of length 0..%d" % Ldec)
        ctx.section("decode", evaluations=ctx.evals - e0)

    if want("tables"):
        e0 = ctx.evals
        shards = []
        full = [["w2p", "p2w", "strict", "inverse", "basis", "p2w", "w2p"],
                ["strict", "p2w", "w2p", "inverse", "strict"],
                ["basis", "strict", "inverse", "p2w"]]
        full_other = [["other", "p2w", "strict", "w2p", "inverse", "other"]]
        for L in range(0, Ltab + 1):
            for seq in full + (full_other if L >= 1 else []):
                shards.append((L, [seq]))
        menu = ["w2p", "p2w", "strict", "basis", "other"]
        for L in range(1, Lhist + 1):
            for chunk in split(op_sequences(menu, 4), 1 if L < 3 else (8 if L == 3 else 32)):
                shards.append((L, chunk))
        # length 6 is the first with permutations that have no pin word (56 of 720)
        orders = list(itertools.permutations(["basis_nonpin", "p2w", "strict"]))
        for seq in (orders[:1] if quick else orders):
            shards.append((6, [list(seq) + ["inverse"]]))
        # big shards first
        shards.sort(key=lambda s: -(8 ** s[0]) * len(s[1]))
        ctx.pmap(shard_tables, shards)
        ctx.bounds["tables"] = {"full_check_lengths": "0..%d (three fixed orders)" % Ltab,
                                "histories": "every sequence of 1..4 operations over %s ('other' = the three tables at length-1), lengths 1..%d, "
                                             "caches cleared before each" % (menu, Lhist),
                                "non_pin_lookup": "length 6: lookup of a permutation without pin "
                                "words, then p2w, strict, inverse" + ("" if quick else " (all 6 orders)")}
        ctx.section("tables", evaluations=ctx.evals - e0)

    if want("translate"):
        e0 = ctx.evals
        shards = [("sp", n) for n in range(1, Lsp + 1)] + [("m", n) for n in range(1, Lm + 1)]
        ctx.pmap(shard_translate, shards)
        ctx.bounds["translate"] = "strict pin words of length 1..%d, words of M of length 1..%d" % (Lsp, Lm)
        ctx.section("translate", evaluations=ctx.evals - e0)

    if want("contain"):
        e0 = ctx.evals
        shards = []
        for n, maxu in plan:
            plen = 0 if n <= 2 else 1 if n == 3 else 2 if n == 4 else 3
            if n == 6:
                plen = 3
            for p in prefixes(n, plen):
                shards.append((n, p, maxu))
        payloads = ctx.pmap(shard_contain, shards)
        report_known(ctx, payloads)
        ctx.bounds["contain"] = [{"w_len": n, "u_len_max": m, "perm_len_max": m}
                                 for n, m in plan]
        ctx.section("contain", evaluations=ctx.evals - e0,
                    pairs=ctx.counters.get("contain_word_pairs", 0),
                    word_perm=ctx.counters.get("contain_word_perm_pairs", 0))

    if want("order"):
        e0 = ctx.evals
        oplan = [(0, 1), (1, 2), (2, 3), (3, 3), (4, 3)] + ([] if quick else [(4, 4), (5, 3)])
        shards = []
        for n, maxu in oplan:
            for p in prefixes(n, 0 if n <= 2 else 1 if n == 3 else 2 if n == 4 else 3):
                shards.append((n, p, maxu))
        ctx.pmap(shard_order, shards)
        ctx.bounds["order"] = {"orders": list(ORDERS),
                               "words": [{"w_len": n, "u_len_max": m, "perm_len_max": m} for n, m in oplan],
                               "reset": "library re-executed before every (w, order)"}
        ctx.section("order", evaluations=ctx.evals - e0, queries=ctx.counters.get("order_queries", 0))

    if want("scale"):
        e0 = ctx.evals
        periods = scale_periods(not quick)
        lmax = 12 if quick else 20
        SCALE_U[:] = scale_us(periods, 9)
        SCALE_SWEEP[0] = not quick
        words = scale_words(periods, lmax)
        payloads = ctx.pmap(shard_scale, [c for c in split(words, 64 if quick else 256) if c])
        report_known(ctx, payloads)
        ctx.bounds["scale"] = {"periods": periods, "w_len_max": lmax, "words": len(words),
                               "strict_u": len(SCALE_U), "u_tail_len_max": 9,
                               "two_factor_u": "numeral + strict u%s, on pairs where the tail of u has >= 3 letters "
                                               "and occurs in w" % ("" if quick else ", and every start index")}
        if not quick:
            fam = scale_perm_family(F.QUADS)
            payloads = ctx.pmap(shard_scale_perm, [c for c in split(fam, 128) if c])
            report_known(ctx, payloads)
            ctx.bounds["scale_perm"] = {"patterns_u": len(fam), "pairs": sum(len(ws) for _, ws in fam),
                                        "u": "rp + numeral + T[:5]", "w": "rp + numeral + T[:9]",
                                        "rp": "numeral + first 3 letters of a spiral starting with U",
                                        "T": "the 8 spirals"}
        ctx.section("scale", evaluations=ctx.evals - e0, words=len(words), strict_u=len(SCALE_U),
                    candidates=ctx.counters.get("scale_candidate_pairs", 0))

    if want("forms"):
        e0 = ctx.evals
        pool = [p for k in range(0, 4) for p in R.perms(k)]
        seqs = [list(s) for k in (1, 2, 3) for s in itertools.product(pool, repeat=k)]
        shards = [("basis", c) for c in split(seqs, 24) if c]
        shards += [("libbasis", L) for L in range(0, 4)]
        words = [w for n in range(0, 4) for w in ref_words(n)]
        shards += [("words", c) for c in split(words, 32) if c]
        shards += [("misc", L) for L in range(0, 4 if quick else 5)]
        ctx.pmap(shard_forms, shards)
        ctx.bounds["forms"] = {
            "pinwords_for_basis": "every sequence of 1..3 permutations of length <= 3 (repeats, mixed lengths) as "
                                  "list, tuple, iter, generator, map, reversed, set, frozenset, dict keys, keyword; "
                                  "Perm.of_length(L) and every Basis of <= 2 permutations, L <= 3",
            "str_entry_points": "keyword / swapped keyword / instance forms, |w| <= 3, |u| <= 2, every start index",
            "int_entry_points": "keyword / instance forms, length <= %d" % (3 if quick else 4)}
        ctx.section("forms", evaluations=ctx.evals - e0)

    if want("fresh"):
        e0 = ctx.evals
        words = [w for n in range(0, 5) for w in ref_words(n)]
        pool = [p for k in range(0, 4) for p in R.perms(k)]
        seqs = [list(s) for k in (1, 2) for s in itertools.product(pool, repeat=k)]
        shards = [("words", c) for c in split(words, 32) if c] + [("basis", c) for c in split(seqs, 4) if c]
        shards += [("enum", L) for L in range(0, 4)]
        ctx.pmap(shard_fresh_results, shards)
        ctx.bounds["fresh"] = ("every list-like result (factor_pinword |w| <= 4; list(pinword_occurrences) |u| <= 2; "
                               "pinwords_for_basis on sequences of <= 2 permutations of length <= 3; "
                               "pinwords_of_length) is damaged in place at every nesting level and asked again: "
                               "same object, equal object, instance, keyword; two rounds")
        ctx.section("fresh", evaluations=ctx.evals - e0)

    import os as _os
    if (only is not None and "fresh_tables" in only) or _os.environ.get("VERIF_C14_FRESH_TABLES") == "1":
        # OFF by default: on /repo the three lru-cached tables are shared dict objects (see report)
        combos = [(L, which, how) for L in (1, 2) for which in TABLE_KINDS
                  for how in ("clear_one_value", "clear_table", "damage_all")]
        ctx.pmap(shard_fresh_results, [("tables", c) for c in split(combos, 6) if c])
        ctx.bounds["fresh_tables"] = "L in 1..2 x table x {clear one value, clear table, damage all}"
        ctx.section("fresh_tables", cases=len(combos))

    if want("abort"):
        e0 = ctx.evals
        ops = [([], ["strict", 2], 12), ([["w2p", 2]], ["strict", 2], 2), ([], ["decode", "3R1D"], 1),
               ([], ["pair", "1L3D", "1L3"], 2), ([], ["pair", "244U", "4U"], 2), ([], ["word", "2RU4L"], 1),
               ([["strict", 1]], ["basis", 1], 1)]
        if not quick:
            ops += [([], ["w2p", 1], 1), ([], ["w2p", 2], 8), ([], ["p2w", 2], 8), ([], ["basis", 2], 8),
                    ([["w2p", 2]], ["p2w", 2], 1), ([["p2w", 2]], ["strict", 2], 1),
                    ([["decode", "24L"]], ["strict", 2], 12), ([], ["strict", 3], 64), ([], ["basis", 3], 64),
                    ([], ["enum", 2], 1), ([], ["translate", "2UL"], 1), ([], ["translate", "DRD"], 1),
                    ([], ["interleave", "111", "11", "1"], 2)]
        shards = [(warm, op, i, n) for warm, op, n in ops for i in range(n)]
        totals = ctx.pmap(shard_abort, shards)
        points = {}
        for (warm, op, i, n), t in zip(shards, totals):
            points[json_key(warm, op)] = t
        ctx.bounds["abort"] = {"operations": [{"warm": w, "op": o} for w, o, _ in ops],
                               "injection": "every k-th 'call' event inside permuta/ during the operation, "
                                            "k = 1..number of such events",
                               "injection_points_per_operation": points,
                               "read_back": "two orders per injection point (tables first / direct entry points "
                                            "first): every table of lengths 1, 2 (and the operation's own), decodes, "
                                            "word/pair/translate checkers, the operation again - on the same "
                                            "library state, 30 s alarm"}
        ctx.section("abort", evaluations=ctx.evals - e0, injection_points=sum(points.values()))

    if want("interleave"):
        e0 = ctx.evals
        shards = [(n, p, 2) for n in range(1, 4) for p in prefixes(n, 1)]
        if not quick:
            shards += [(4, p, 2) for p in prefixes(4, 2)]
        ctx.pmap(shard_interleave, shards)
        ctx.bounds["interleave"] = "w of length 1..%d, all ordered pairs (u1, u2) of length 1..2" % (3 if quick else 4)
        ctx.section("interleave", evaluations=ctx.evals - e0)

    if want("history"):
        e0 = ctx.evals
        lengths = (0, 1, 2, 3) if quick else (0, 1, 2, 3, 4)
        depth = 4
        for op in DIRECT_OPS:
            if op[0] == "pair" and F.geometric_occurrences(op[1], op[2]) != F.letter_occurrences(op[1], op[2], False):
                raise RuntimeError("history menu: pair %r sits on the known finding" % (op,))
        menu = table_ops(lengths) + DIRECT_OPS
        st, tr, per_depth, sample = explore_histories(ctx, menu, depth)
        ctx.states, ctx.transitions, ctx.traces = st, tr, tr
        ctx.bump("history_states", st)
        ctx.bump("history_transitions", tr)
        for h in sample:
            ctx.sample({"sub": "history", "history": h}, cap=12)
        # the same kind of history in genuinely fresh interpreters (no reload involved)
        dec = [op for op in DIRECT_OPS if op[0] == "decode" and op[1]]
        tabs = table_ops([l for l in lengths if l >= 1])
        hs = [[a, b] for a in dec for b in tabs]
        if not quick:
            hs += [[b, a] for a in DIRECT_OPS for b in tabs] + \
                  [[a, b] for a in DIRECT_OPS if a not in dec for b in tabs]
        ctx.pmap(shard_fresh, [c for c in split(hs, 32) if c])
        ctx.bounds["history"] = {
            "menu": menu, "depth": depth, "states_per_depth": per_depth,
            "reset": "pinword_util and pin_words re-executed (as importlib.reload does) before every history",
            "after_every_step": "the operation's own answer and every table built so far, in full",
            "canonical_state": "contents of built tables, lru cache sizes, module/class level "
                               "containers and instances, default arguments, closure cells",
            "fresh_interpreter": "%d two-step histories, one interpreter each: (decode w, table op)%s"
                                 % (len(hs), "" if quick else
                                    ", (table op, any direct op), (any direct op, table op)")}
        ctx.section("history", states=st, transitions=tr, per_depth=per_depth, fresh=len(hs),
                    evaluations=ctx.evals - e0)

    # simplest case first in the report
    ctx.viols.sort(key=_case_size)


# --------------------------------------------------------------------------------------------
# replay
# --------------------------------------------------------------------------------------------

def replay(ctx, rec):
    PW = _PW()
    sub, case = rec["sub"], rec["case"]

    def known(part, sub_, sig, case_, detail):
        part.violation(sub_, case_, detail, sig=sig)

    if sub in ("enum", "strict_enum"):
        check_enum(ctx, case["length"])
    elif sub in ("decode", "quadrant", "factor"):
        check_word(ctx, PW, case["word"])
    elif sub == "tables":
        run_table_ops(ctx, case["length"], case["ops"])
    elif sub == "sp_to_m":
        check_sp(ctx, PW, case["word"])
    elif sub == "m_to_sp":
        check_m(ctx, PW, case["word"])
    elif sub in ("occurrences", "contains_pair", "occurrences_sp", "contains_sp"):
        w, u = case["w"], case["u"]
        tmp = Partial()
        check_pair(tmp, PW, w, u, F.geometric_occurrences(w, u), F.letter_occurrences(w, u, False), known)
        for v in tmp.viols:      # only the recorded observer
            if v["sub"] == sub and ("start" not in case or v["case"].get("start") == case["start"]):
                ctx.violation(v["sub"], v["case"], v["detail"], sig=v["sig"])
    elif sub == "reflect":
        w, p = case["w"], tuple(case["perm"])
        us = [u for u in ref_words(len(p)) if F.perm_of(u) == p]
        exp = p in F.patterns_of(F.perm_of(w))
        try:
            got = any(PW.pinword_contains(w, u) for u in us)
        except Exception as exc:  # noqa
            ctx.violation("reflect", case, {"exception": repr(exc)})
            return
        if got != exp:
            dev = any(bool(F.letter_occurrences(w, u, False)) for u in us)
            det = {"perm_of_w": F.perm_of(w), "expected_contained": exp, "found_in_words": got}
            if got == dev:
                ctx.violation("reflect", case, det, sig=SIG_CON)
            else:
                ctx.violation("reflect", case, det)
    elif sub == "interleave":
        check_interleave(ctx, PW, case["w"], case["u1"], case["u2"])
    elif sub in ("scale_sp", "scale_contains_sp", "scale_occ", "scale_contains"):
        w, u = case["w"], case["u"]
        fs = F.factors(u)
        tmp = Partial()
        check_scale_pair(tmp, PW, w, F.quadrants(w), fs[-1], known, every_start=True, naive=True)
        for v in tmp.viols:      # only the recorded query
            if v["sub"] == sub and v["case"].get("u") == u and v["case"].get("start") == case.get("start"):
                ctx.violation(v["sub"], v["case"], v["detail"], sig=v["sig"])
    elif sub == "scale_perm":
        w, u = case["w"], case["u"]
        check_scale_perm(ctx, PW, w, u, F.pin_words_of_perm(F.perm_of(u)), known)
    elif sub == "forms":
        Perm = _Perm()
        if case["fn"] == "pinwords_for_basis" and "basis" in case:
            check_basis_forms(ctx, PW, Perm, [tuple(p) for p in case["basis"]], only_form=case["form"])
        elif case["fn"] == "pinwords_for_basis":
            tmp = Partial()
            check_library_basis_forms(tmp, PW, Perm, case["length"])
            for v in tmp.viols:
                if v["case"] == case:
                    ctx.violation(v["sub"], v["case"], v["detail"])
        elif case["fn"] == "str entry points":
            check_word_forms(ctx, PW, case["w"], [u for k in range(0, 3) for u in ref_words(k)])
        else:
            check_misc_forms(ctx, PW, case["length"])
    elif sub == "fresh":
        Perm = _Perm()
        if case["fn"] == "pinwords_for_basis":
            check_fresh_basis(ctx, PW, Perm, [tuple(p) for p in case["basis"]])
        elif "length" in case:
            check_fresh_enum(ctx, PW, case["length"])
        else:
            w = case["w"]
            check_fresh_word(ctx, PW, w if case["fn"] != "sp_to_m" else "1", [u for k in range(0, 3) for u in ref_words(k)])
    elif sub == "fresh_tables":
        check_fresh_tables(ctx, PW, _Perm(), case["length"], case["damaged_table"], case["damage"])
    elif sub == "abort":
        import sys
        hook = sys.unraisablehook
        sys.unraisablehook = lambda unraisable: None
        try:
            _, _, fail = abort_attempt(case["warm"], case["op"], case["abort_at_call"],
                                       case.get("read_back", "tables_first"))
        finally:
            sys.unraisablehook = hook
        if fail is not None:
            ctx.violation("abort", case, fail[1])
    elif sub == "order":
        build_globals(max(case["maxu"], 3))
        run_order(ctx, case["w"], case["order"], case["maxu"], _silent_known)
    elif sub == "history":
        hist = case["history"]
        _, fail = run_history(hist)
        if fail is not None:
            ctx.violation("history", case, dict(fail[1], failed_step=[fail[0], hist[fail[0]]]))
    elif sub == "history_fresh":
        bad = fresh_interpreter_history(case["history"])
        if bad is not None:
            ctx.violation("history_fresh", case, bad)
    else:
        raise ValueError("unknown sub-check %r" % sub)
