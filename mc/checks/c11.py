"""C11 - every permutation statistic returns the value its definition and name promise.

E1 (bounded exhaustive enumeration against mc/ref_c11.py), sub-checks:

  methods    every statistic / listing / count method of Perm in the anchored range (and every
             alias), on ALL permutations of length <= N, every legal step size for descents/ascents
  repeat     the same call a second time on the same object gives the same answer (n <= 5)
  table      every entry of PermutationStatistic._STATISTICS, BY NAME, on all of S<=N;
             get_by_index / inv / maj / des / asc
  isprime    permuta.misc.math.is_prime on every integer of a range
  dist       distribution_for_length / distribution_up_to, no class and every class of a pool
  classes    equally_distributed, jointly_equally_distributed, jointly_transformed_... on class pairs
  bijections preserved_in, check_all_preservations, check_all_transformed, symmetry_duplication on
             families of bijections given as data (incl. ALL bijections of S_3 onto itself)
  custom     PermutationStatistic(name, func) with user functions (pure tool logic)

Known open findings are matched through deviation models (ref_c11.DEVIATION, layers_deviation).
"""
from __future__ import annotations

import itertools
import math
from collections import Counter

from .. import ref_c11 as D
from .. import refmodel as R
from ..core import Partial

PROPERTY = "C11"
LEVEL = "exploration"

SIG = {
    D.LIS: "C11|table entry 'Longest increasing subsequence'|longest ascending run < longest increasing subsequence",
    D.LDS: "C11|table entry 'Longest decreasing subsequence'|longest descending run < longest decreasing subsequence",
}
SIG_LAYERS = ("C11|rtlmax_ltrmin_decomposition|a later layer has a left-to-right minimum whose "
              "value >= number of remaining entries")


def report(part, sub, case, detail, sig=None):
    """sig is only ever passed when the implementation's answer equals a deviation model."""
    part.violation(sub, case, detail, sig=sig)


def _lib():
    from permuta import Perm
    from permuta.permutils.statistics import PermutationStatistic
    return Perm, PermutationStatistic


# --------------------------------------------------------------------------------------------
# the method table: name -> (kind, reference(p, *args), deviation(p, *args) or None)
# --------------------------------------------------------------------------------------------

def _n(f):
    return lambda p, *a: len(f(p, *a))


def _cyc_norm(p):
    return sorted(sorted(c) for c in D.cycles(p))


def _patt_counts(k):
    def f(p):
        c = D.pattern_counts(p, k)
        return [[list(q), c.get(q, 0)] for q in R.perms(k)]
    return f


METHODS = {}


def _reg(names, kind, ref, dev=None):
    for nm in names.split():
        METHODS[nm] = (kind, ref, dev)


_reg("fixed_points", "seq", D.fixed_points)
_reg("count_fixed_points", "int", _n(D.fixed_points))
_reg("strong_fixed_points", "seq", D.strong_fixed_points)
_reg("descents descent_set", "seq", D.descents)
_reg("count_descents num_descents", "int", _n(D.descents))
_reg("ascents ascent_set", "seq", D.ascents)
_reg("count_ascents num_ascents", "int", _n(D.ascents))
_reg("peaks peak_list", "seq", D.peaks)
_reg("count_peaks num_peaks", "int", _n(D.peaks))
_reg("pinnacles pinnacle_set", "seq", D.pinnacles)
_reg("count_pinnacles num_pinnacles", "int", _n(D.pinnacles))
_reg("count_column_sum_primes num_column_sum_primes", "int", D.column_sum_primes)
_reg("valleys valley_list", "seq", D.valleys)
_reg("count_valleys num_valleys", "int", _n(D.valleys))
_reg("bends bend_list", "seq", D.bends)
_reg("order", "int", D.order)
_reg("ltrmin", "seq", D.ltrmin)
_reg("ltrmax", "seq", D.ltrmax)
_reg("rtlmin", "seq", D.rtlmin)
_reg("rtlmax", "seq", D.rtlmax)
_reg("count_ltrmin num_ltrmin", "int", _n(D.ltrmin))
_reg("count_ltrmax", "int", _n(D.ltrmax))
_reg("count_rtlmin", "int", _n(D.rtlmin))
_reg("count_rtlmax", "int", _n(D.rtlmax))
_reg("inversions", "seq", D.inversions)
_reg("count_inversions", "int", _n(D.inversions))
_reg("non_inversions", "seq", D.non_inversions)
_reg("count_non_inversions", "int", _n(D.non_inversions))
_reg("count_bounces", "int", D.count_bounces)
_reg("max_drop_size", "int", D.max_drop_size)
_reg("holeyness", "int", D.holeyness)
_reg("count_stack_sorts", "int", lambda p: D.passes_needed(p, D.stack_sort))
_reg("count_pop_stack_sorts", "int", lambda p: D.passes_needed(p, D.pop_stack_sort))
_reg("cyclic_peaks cyclic_peaks_list", "seq", D.cyclic_peaks)
_reg("count_cyclic_peaks", "int", _n(D.cyclic_peaks))
_reg("cyclic_valleys cyclic_valleys_list", "seq", D.cyclic_valleys)
_reg("count_cyclic_valleys", "int", _n(D.cyclic_valleys))
_reg("double_excedance double_excedance_list", "seq", D.double_excedance)
_reg("count_double_excedance", "int", _n(D.double_excedance))
_reg("double_drops double_drops_list", "seq", D.double_drops)
_reg("count_double_drops", "int", _n(D.double_drops))
# the four below are built from set intersections: the order of the returned list is not promised
_reg("foremaxima", "set", D.foremaxima)
_reg("count_foremaxima", "int", _n(D.foremaxima))
_reg("afterminima", "set", D.afterminima)
_reg("count_afterminima", "int", _n(D.afterminima))
_reg("aftermaxima", "set", D.aftermaxima)
_reg("count_aftermaxima", "int", _n(D.aftermaxima))
_reg("foreminima", "set", D.foreminima)
_reg("count_foreminima", "int", _n(D.foreminima))
_reg("min_gapsize", "int", D.min_gapsize)
_reg("all_bonds", "seq", D.all_bonds)
_reg("count_bonds num_bonds bonds", "int", _n(D.all_bonds))
_reg("inc_bonds", "seq", D.inc_bonds)
_reg("count_inc_bonds num_inc_bonds", "int", _n(D.inc_bonds))
_reg("dec_bonds", "seq", D.dec_bonds)
_reg("count_dec_bonds num_dec_bonds", "int", _n(D.dec_bonds))
_reg("major_index", "int", D.major_index)
_reg("depth", "int", D.depth)
_reg("maximal_decreasing_run", "int", D.maximal_decreasing_run)
def _runs(p, asc):
    # cubic definitional form up to length 12, the (cross-checked) quadratic form for long shapes
    return D.longest_runs(p, asc) if len(p) <= 12 else D.longest_runs_long(p, asc)


_reg("longestruns_ascending", "runs", lambda p: _runs(p, True))
_reg("longestruns_descending", "runs", lambda p: _runs(p, False))
_reg("length_of_longestrun_ascending", "int", lambda p: _runs(p, True)[0])
_reg("length_of_longestrun_descending", "int", lambda p: _runs(p, False)[0])
_reg("cycle_decomp", "cycles", _cyc_norm)
_reg("count_cycles num_cycles", "int", lambda p: len(D.cycles(p)))
_reg("is_involution", "bool", D.is_involution)
_reg("threepats", "counter3", _patt_counts(3))
_reg("fourpats", "counter4", _patt_counts(4))
_reg("rank_encoding", "seq", D.rank_encoding)
_reg("rtlmax_ltrmin_decomposition", "layers", D.layers, D.layers_deviation)
_reg("count_rtlmax_ltrmin_layers num_rtlmax_ltrmin_layers", "int", _n(D.layers),
     _n(D.layers_deviation))

STEP_METHODS = ("descents", "descent_set", "count_descents", "num_descents",
                "ascents", "ascent_set", "count_ascents", "num_ascents")
MIN_LEN = {"min_gapsize": 2}        # min over an empty set of pairs: not defined below length 2


def arg_sets(name, n):
    """All argument tuples explored for a method on permutations of length n."""
    if name in STEP_METHODS:
        # no step size, and every step size 1..n (n-1 is the largest possible difference; n and
        # n+... can never occur: n is included as the 'nothing' case)
        return [()] + [(k,) for k in range(1, max(n, 1) + 1)]
    return [()]


def observe(kind, res, p, Perm):
    """Normalise the implementation's return value into comparable, JSON-able data."""
    if kind in ("int",):
        if isinstance(res, bool) or not isinstance(res, int):
            return ["not-an-int", repr(res)]
        return res
    if kind == "bool":
        return bool(res) if isinstance(res, (bool, int)) else ["not-a-bool", repr(res)]
    if kind == "seq":
        return [list(x) if isinstance(x, tuple) else x for x in res]
    if kind == "set":
        lst = list(res)
        if len(set(lst)) != len(lst):
            return ["duplicates", lst]
        return sorted(lst)
    if kind == "runs":
        length, starts = res
        return [length, list(starts)]
    if kind == "layers":
        return [list(layer) for layer in res]
    if kind == "cycles":
        cyc = [list(c) for c in res]
        elems = [x for c in cyc for x in c]
        ok = sorted(elems) == list(range(len(p))) and all(
            p[c[t]] == c[(t + 1) % len(c)] for c in cyc for t in range(len(c)))
        if not ok:
            return ["not-a-cycle-decomposition", cyc]
        return sorted(sorted(c) for c in cyc)
    if kind in ("counter3", "counter4"):
        k = int(kind[-1])
        out = [[list(q), res[Perm(q)]] for q in R.perms(k)]
        total = sum(res.values())
        if total != sum(v for _, v in out):
            return ["extra-keys", sorted((repr(key), v) for key, v in res.items())]
        return out
    raise ValueError(kind)


def expected(kind, ref, p, args):
    exp = ref(p, *args)
    if kind == "seq":
        return [list(x) if isinstance(x, tuple) else x for x in exp]
    if kind == "set":
        return sorted(exp)
    if kind == "runs":
        return [exp[0], list(exp[1])]
    if kind == "bool":
        return bool(exp)
    return exp


def nontrivial_value(exp):
    """Rule for methods/table: the reference answer is neither zero nor empty (and for the
    'longest run' pairs: shorter than the permutation)."""
    if isinstance(exp, bool):
        return exp
    if isinstance(exp, int):
        return exp != 0
    if isinstance(exp, list):
        if exp and isinstance(exp[0], list) and len(exp[0]) == 2 and isinstance(exp[0][1], int) \
                and isinstance(exp[0][0], list):
            return any(v for _, v in exp)            # pattern counters
        return len(exp) > 0
    return True


def perm_forms(Perm):
    """FORMS: every way of handing the same permutation to the library."""
    return {
        "tuple": lambda p: Perm(p),
        "list": lambda p: Perm(list(p)),
        "iterator": lambda p: Perm(iter(p)),
        "generator": lambda p: Perm(v for v in p),
        "map": lambda p: Perm(map(int, p)),
        "Perm(Perm)": lambda p: Perm(Perm(p)),
        "to_standard(2v+3)": lambda p: Perm.to_standard([2 * v + 3 for v in p]),   # shared memoised object
        "to_standard(iterator)": lambda p: Perm.to_standard(iter(p)),
        "from_string": lambda p: Perm.from_string("".join(map(str, p))),
        "one_based": lambda p: Perm.one_based([v + 1 for v in p]),
        "from_iterable_validated": lambda p: Perm.from_iterable_validated(p),
        "inverse.inverse": lambda p: Perm(p).inverse().inverse(),
    }


def check_method(part, Perm, p, name, args, repeat=False, times=1, form=None, kwargs=None,
                 sub="methods", exp=None):
    """One (method, permutation, arguments) case.  Returns the expected value (for counting).
    `times` > 1 (replay only) repeats the whole case on fresh objects, so that a case whose failure
    depends on an earlier call in the same process still reproduces.  `form`: how the Perm object is
    made (perm_forms); `kwargs`: the arguments given by keyword instead of by position."""
    kind, ref, dev = METHODS[name]
    if exp is None:
        exp = expected(kind, ref, p, tuple(args) + tuple((kwargs or {}).values()))
    case = {"method": name, "args": list(args), "perm": list(p)}
    if form is not None:
        case["form"] = form
    if kwargs:
        case["kwargs"] = dict(kwargs)
    make = perm_forms(Perm)[form] if form is not None else Perm
    for _ in range(times):
        try:
            obj = make(p)
        except Exception as exc:  # noqa
            part.violation(sub, case, {"exception_in_construction": repr(exc)})
            return exp
        meth = getattr(obj, name, None)
        if meth is None:
            part.bump("method-missing:" + name)
            return exp
        try:
            got = observe(kind, meth(*args, **(kwargs or {})), p, Perm)
        except Exception as exc:  # noqa
            part.violation(sub, case, {"exception": repr(exc), "expected": exp})
            return exp
        if got != exp:
            sig = None
            if dev is not None and got == expected(kind, dev, p, args):
                sig = SIG_LAYERS
            report(part, sub, case, {"expected": exp, "got": got}, sig)
            return exp
        if repeat:
            try:
                again = observe(kind, getattr(obj, name)(*args), p, Perm)
            except Exception as exc:  # noqa
                again = ["exception", repr(exc)]
            if again != got:
                case2 = dict(case)
                case2["repeat"] = True
                part.violation("repeat", case2, {"first": got, "second": again})
                return exp
    return exp


def check_table_entry(part, Perm, PS, p, name, func, ref_val, dev_val, times=1):
    case = {"stat": name, "perm": list(p)}
    for _ in range(times):
        try:
            got = func(Perm(p))
        except Exception as exc:  # noqa
            part.violation("table", case, {"exception": repr(exc), "expected": ref_val})
            return
        if got != ref_val or isinstance(got, bool) or not isinstance(got, int):
            sig = SIG[name] if (name in SIG and got == dev_val) else None
            report(part, "table", case, {"expected": ref_val, "got": got}, sig)
            return


def table_entries(PS):
    """(index, name, func) of the implementation's table for the names that have a reference."""
    return [(i, name, func) for i, (name, func) in enumerate(PS._STATISTICS) if name in D.FUNC]


# --------------------------------------------------------------------------------------------
# shard: a slice of S_n - methods, repeat, table; returns the reference vectors as payload
# --------------------------------------------------------------------------------------------

HEAVY = ("holeyness", "threepats", "fourpats", "Holeyness of a permutation")
# brute-force enumerations in the library (all subsets / all 3- and 4-subsets).  They were once
# left out at length 9 for cost - exactly where an unsound pruning of the subset search first
# shows (seeded C11-g) - so nothing is left out any more (skip_heavy is always False).


def shard_perms(shard):
    n, lo, hi, do_methods, do_table, do_repeat, want_vec, skip_heavy = shard
    Perm, PS = _lib()
    part = Partial()
    entries = table_entries(PS) if do_table else []
    payload = []
    names = sorted(METHODS)
    if skip_heavy:
        names = [nm for nm in names if nm not in HEAVY]
        entries = [e for e in entries if e[1] not in HEAVY]
    sampled = False
    mid = R.perms(n)[(lo + hi) // 2] if hi > lo else None
    for p in R.perms(n)[lo:hi]:
        if do_methods:
            for name in names:
                if n < MIN_LEN.get(name, 0):
                    continue
                for args in arg_sets(name, n):
                    exp = check_method(part, Perm, p, name, args, repeat=do_repeat)
                    part.add(1, 1 if nontrivial_value(exp) else 0)
                    if do_repeat:
                        part.bump("repeat-pairs")
            if not sampled and n >= 5 and lo == 0 and p == mid:
                sampled = True
                part.sample({"perm": p, "rtlmax_ltrmin_decomposition": D.layers(p),
                             "longestruns_ascending": D.longest_runs(p, True),
                             "inversions": len(D.inversions(p)), "holeyness": D.holeyness(p)}, cap=1)
        if want_vec:
            ref, dev = D.table_values(p)
            payload.append((p, ref, dev))
        for i, name, func in entries:
            if want_vec:
                j = D.NAMES.index(name)
                r, d = ref[j], dev[j]
            else:
                r = D.FUNC[name](p)
                d = D.DEVIATION[name](p) if name in D.DEVIATION else r
            check_table_entry(part, Perm, PS, p, name, func, r, d)
            part.add(1, 1 if r != 0 else 0)
            part.outcomes.add((name, r))
    return part, payload


# --------------------------------------------------------------------------------------------
# scale: inputs ABOVE the exhaustive bound.
#   slice     every permutation of length n whose first entry is n//2 (1/n of S_n), the methods
#             whose library implementation is a search / iteration that could be pruned (SEARCH)
#   extremal  ref_c11.holey_extremal(n): the extremal structure of the subset-search statistic
#   shapes    ref_c11.scale_shapes(n) at lengths straddling runtime thresholds (8/9, 32/33,
#             256/257): every polynomial method; exponential ones while affordable
# Same oracle (check_method / check_table_entry) as everywhere else.
# --------------------------------------------------------------------------------------------

SEARCH = ("holeyness", "threepats", "fourpats", "min_gapsize", "count_stack_sorts",
          "count_pop_stack_sorts", "order", "cycle_decomp", "count_cycles", "count_bounces",
          "maximal_decreasing_run", "count_inversions", "rtlmax_ltrmin_decomposition",
          "longestruns_ascending", "longestruns_descending")
HOLEY_MAX = 13          # 2**n subsets in the library
FOURPATS_MAX = 12       # n**4
THREEPATS_MAX = 34      # n**3
LONG_STEPS = (1, 2, 3, 7, 8, 9, 31, 32, 33, 255, 256, 257, 258)


VALUE_METHODS = ("order", "cycle_decomp", "count_cycles", "num_cycles", "is_involution",
                 "fixed_points", "count_fixed_points", "depth")
VALUE_TABLE = ("Order", "Number of cycles", "Number of fixed points", "Depth")
# 'value' family (ref_c11.value_family): the VALUE of the statistic crosses 2**53 and 2**64.  Only
# the order can (everything else is below n**4); the cycle-related methods ride along.


def scale_names(n, kind):
    if kind == "value":
        return list(VALUE_METHODS), {nm for nm in D.NAMES if nm not in VALUE_TABLE}
    names = list(SEARCH) if kind == "slice" else sorted(METHODS)
    drop = set()
    if n > HOLEY_MAX:
        drop |= {"holeyness", "Holeyness of a permutation"}
    if n > FOURPATS_MAX:
        drop.add("fourpats")
    if n > THREEPATS_MAX:
        drop.add("threepats")
    return [nm for nm in names if nm not in drop], drop


def scale_args(name, n):
    if name in STEP_METHODS and n > 12:
        return [()] + [(k,) for k in sorted(set(LONG_STEPS) | {n - 1, n}) if 1 <= k <= n]
    return arg_sets(name, n)


def scale_perms(kind, n, lo, hi):
    if kind == "slice":
        first = n // 2
        rest = [v for v in range(n) if v != first]
        return [("first entry %d" % first, (first,) + q)
                for q in itertools.islice(itertools.permutations(rest), lo, hi)]
    if kind == "value":
        return D.value_family()[lo:hi]
    fam = D.holey_extremal(n) if kind == "extremal" else D.scale_shapes(n)
    return fam[lo:hi]


def shard_scale(shard):
    kind, n, lo, hi, do_table = shard
    Perm, PS = _lib()
    part = Partial()
    names, drop = scale_names(n, kind)
    entries = [e for e in table_entries(PS) if e[1] not in drop] if do_table else []
    perms = scale_perms(kind, n, lo, hi)
    for label, p in perms:
        for name in names:
            if n < MIN_LEN.get(name, 0):
                continue
            for args in scale_args(name, n):
                exp = check_method(part, Perm, p, name, args)
                part.add(1, 1 if nontrivial_value(exp) else 0)
        for i, name, func in entries:
            r = D.FUNC[name](p)
            d = D.DEVIATION[name](p) if name in D.DEVIATION else r
            check_table_entry(part, Perm, PS, p, name, func, r, d)
            part.add(1, 1 if r != 0 else 0)
        part.bump("scale-perms:%s:%d" % (kind, n))
    if perms and lo == 0:
        label, p = perms[len(perms) // 2]
        part.sample({"scale": kind, "n": n, "label": label,
                     "perm": p if len(p) <= 16 else list(p[:8]) + ["..."],
                     "order": D.order(p),
                     "holeyness": D.holeyness(p) if len(p) <= HOLEY_MAX else None}, cap=1)
    return part


def shard_value_tools(shard):
    """preserved_in of the VALUE_TABLE statistics on p -> sym(p) over the whole value family (orders
    far above 2**53 that are equal as integers on both sides for the inverse and the identity map)."""
    symname, = shard
    Perm, PS = _lib()
    part = Partial()
    fam = D.value_family()
    pairs = [(p, R.apply_sym(symname, p)) for _, p in fam]
    bij = {Perm(k): Perm(v) for k, v in pairs}
    ents = [e for e in table_entries(PS) if e[1] in VALUE_TABLE]
    case = {"tool": "preserved_in", "value_family": True, "sym": symname,
            "label": "sym:%s on value_family" % symname}
    got, exp = set(), set()
    for i, name, _f in ents:
        try:
            if PS.get_by_index(i).preserved_in(bij):
                got.add(name)
        except Exception as exc:  # noqa
            part.violation("scale", dict(case, stat=name), {"exception": repr(exc)})
        if all(D.FUNC[name](k) == D.FUNC[name](v) for k, v in pairs):
            exp.add(name)
    attribute(part, "scale", case, got, exp, exp, lambda e: (e,))
    part.add(len(ents), 1 if 0 < len(exp) < len(ents) else 0)
    return part


_REFVAL = {}


def refval(name, p, which=0):
    """reference (which=0) / deviation-model (which=1) value of a table statistic, memoised"""
    key = (name, p, which)
    v = _REFVAL.get(key)
    if v is None:
        f = D.DEVIATION[name] if (which and name in D.DEVIATION) else D.FUNC[name]
        v = _REFVAL[key] = f(p)
    return v


def shard_scale_tools(shard):
    """preserved_in for every table statistic that is polynomial, on bijections between LONG
    permutations (statistic values far above 256): p -> reverse / complement / inverse of p over
    the whole shape family of one length."""
    n, symname = shard
    Perm, PS = _lib()
    part = Partial()
    _, drop = scale_names(n, "shapes")
    fam = D.scale_shapes(n)
    pairs = [(p, R.apply_sym(symname, p)) for _, p in fam]
    bij = {Perm(k): Perm(v) for k, v in pairs}
    got, exp = set(), [set(), set()]
    ents = [e for e in table_entries(PS) if e[1] not in drop]
    case = {"tool": "preserved_in", "scale_n": n, "sym": symname,
            "label": "sym:%s on scale_shapes(%d)" % (symname, n)}
    for i, name, _f in ents:
        try:
            if PS.get_by_index(i).preserved_in(bij):
                got.add(name)
        except Exception as exc:  # noqa
            part.violation("scale", dict(case, stat=name), {"exception": repr(exc)})
        for w in (0, 1):
            if all(refval(name, k, w) == refval(name, v, w) for k, v in pairs):
                exp[w].add(name)
    attribute(part, "scale", case, got, exp[0], exp[1], lambda e: (e,))
    part.add(len(ents), 1 if 0 < len(exp[0]) < len(ents) else 0)
    return part


# --------------------------------------------------------------------------------------------
# FORMS: the same logical input in every argument form the signatures admit
# --------------------------------------------------------------------------------------------

def shard_forms_methods(shard):
    """every Perm construction form x every method x every argument (also by keyword)"""
    n, lo, hi = shard
    Perm, PS = _lib()
    part = Partial()
    forms = [f for f in perm_forms(Perm) if f != "tuple"]     # "tuple" is the form used everywhere else
    ents = table_entries(PS)
    for p in R.perms(n)[lo:hi]:
        for name in sorted(METHODS):
            if n < MIN_LEN.get(name, 0):
                continue
            kind, ref, _dev = METHODS[name]
            for args in arg_sets(name, n):
                exp = expected(kind, ref, p, args)
                for form in forms:
                    check_method(part, Perm, p, name, args, form=form, sub="forms", exp=exp)
                    part.add(1, 1 if nontrivial_value(exp) else 0)
                if args and name in STEP_METHODS:
                    check_method(part, Perm, p, name, (), kwargs={"step_size": args[0]},
                                 sub="forms", exp=exp)
                    part.add(1, 1 if nontrivial_value(exp) else 0)
        # the table functions on every form
        ref_v, dev_v = D.table_values(p)
        for form in forms:
            make = perm_forms(Perm)[form]
            for i, name, func in ents:
                j = D.NAMES.index(name)
                case = {"stat": name, "perm": list(p), "form": form}
                try:
                    got = func(make(p))
                except Exception as exc:  # noqa
                    part.violation("forms", case, {"exception": repr(exc)})
                    continue
                if got != ref_v[j]:
                    report(part, "forms", case, {"expected": ref_v[j], "got": got},
                           SIG[name] if (name in SIG and got == dev_v[j]) else None)
                part.add(1, 1 if ref_v[j] else 0)
    return part


def shard_forms_tools(shard):
    part = Partial()
    for what in shard:
        if what[0] == "dist":
            _, basis, nmax, form = what
            run_dist_case(part, basis, nmax, form=form, sub="forms")
        elif what[0] == "pair":
            _, tool, b1, b2, n, dim, form = what
            part.add(1, run_pair_case(part, tool, b1, b2, n, dim, form=form, sub="forms"))
        else:
            _, label, pairs, tools, form = what
            part.add(len(tools), run_bij_case(part, label, pairs, tools, form=form, sub="forms"))
    return part


# --------------------------------------------------------------------------------------------
# FRESH: damage every mutable container that was returned, then ask again along several routes
# --------------------------------------------------------------------------------------------

def damage(x):
    """In-place damage at every nesting level (members first)."""
    import collections
    if isinstance(x, (list, collections.deque)):
        for y in list(x):
            damage(y)
        x.reverse()
        x.append(-7)
        if len(x) > 1:
            del x[0]
    elif isinstance(x, dict):
        for y in list(x.values()):
            damage(y)
        x.clear()
        x["damaged"] = -7
    elif isinstance(x, set):
        x.clear()
        x.add(-7)
    elif isinstance(x, tuple):
        for y in x:
            damage(y)


def materialise(raw):
    """generators / iterators are consumed into a list (their MEMBERS may still be shared)."""
    import collections
    if isinstance(raw, (list, tuple, dict, set, collections.deque, int, bool)) or raw is None:
        return raw
    return list(raw)


CONTAINER_KINDS = ("seq", "set", "runs", "layers", "cycles", "counter3", "counter4")


def fresh_method_case(part, Perm, p, name, args, times=1):
    """query, compare, damage the result, query again: same object, a new equal object, the
    shared object handed out by Perm.to_standard, and every alias / sibling method registered with
    the same reference."""
    kind, ref, dev = METHODS[name]
    exp = expected(kind, ref, p, args)
    exp_dev = expected(kind, dev, p, args) if dev is not None else None
    siblings = [nm for nm in sorted(METHODS) if METHODS[nm][1] is ref and METHODS[nm][0] == kind]
    case = {"method": name, "args": list(args), "perm": list(p)}
    for _ in range(times):
        obj = Perm(p)
        shared = Perm.to_standard([3 * v + 1 for v in p])
        try:
            raw = materialise(getattr(obj, name)(*args))
            got = observe(kind, raw, p, Perm)
        except Exception as exc:  # noqa
            part.violation("fresh", case, {"exception": repr(exc)})
            return exp
        if got != exp and got != exp_dev:
            part.violation("fresh", case, {"route": "first call", "expected": exp, "got": got})
            return exp
        damage(raw)
        for route, target in (("same object", obj), ("new equal object", Perm(p)),
                              ("Perm.to_standard object", shared)):
            for nm in siblings:
                try:
                    again = observe(kind, materialise(getattr(target, nm)(*args)), p, Perm)
                except Exception as exc:  # noqa
                    again = ["exception", repr(exc)]
                if again != exp and again != exp_dev:
                    part.violation("fresh", case, {"after_damaging_the_result_of": name,
                                                   "route": route, "asked": nm,
                                                   "expected": exp, "got": again})
                    return exp
    return exp


def shard_fresh_methods(shard):
    n, lo, hi = shard
    Perm, PS = _lib()
    part = Partial()
    names = [nm for nm in sorted(METHODS) if METHODS[nm][0] in CONTAINER_KINDS]
    for p in R.perms(n)[lo:hi]:
        for name in names:
            if n < MIN_LEN.get(name, 0):
                continue
            for args in arg_sets(name, n):
                exp = fresh_method_case(part, Perm, p, name, args)
                part.add(1, 1 if nontrivial_value(exp) else 0)
    return part


def fresh_tool_case(part, what, times=1):
    """tools returning lists / dicts: distribution tables, check_all_transformed,
    symmetry_duplication."""
    Perm, PS = _lib()
    ents = table_entries(PS)
    for _ in range(times):
        if what[0] == "dist":
            _, basis, nmax = what
            cls = mk_class(basis) if basis is not None else None
            data = [R.perms(n) for n in range(nmax + 1)] if cls is None else class_data(cls, nmax)
            for i, name, _f in ents:
                j = D.NAMES.index(name)
                st = PS.get_by_index(i)
                case = {"tool": "distribution", "basis": basis, "n": nmax, "stat": name}
                n0 = part.nviol
                try:
                    first = st.distribution_for_length(nmax, cls)
                    check_distribution(part, "fresh", dict(case, route="first call"), first,
                                       data[nmax], j, name)
                    damage(first)
                    rows = st.distribution_up_to(nmax, cls)
                    for n in range(nmax + 1):
                        check_distribution(part, "fresh", dict(case, route="up_to after damage", row=n),
                                           rows[n], data[n], j, name)
                    damage(rows)
                    for route, s2 in (("same statistic object", st),
                                      ("new statistic object", PS.get_by_index(i))):
                        check_distribution(part, "fresh", dict(case, route=route),
                                           s2.distribution_for_length(nmax, cls), data[nmax], j, name)
                        rows2 = s2.distribution_up_to(nmax, cls)
                        for n in range(nmax + 1):
                            check_distribution(part, "fresh", dict(case, route=route + " up_to", row=n),
                                               rows2[n], data[n], j, name)
                except Exception as exc:  # noqa
                    part.violation("fresh", case, {"exception": repr(exc)})
                if part.nviol != n0 and times > 1:
                    return
        else:
            _, label, pairs = what
            pairs = [(tuple(k), tuple(v)) for k, v in pairs]
            bij = mk_bij(Perm, pairs)
            before = [(tuple(k), tuple(v)) for k, v in bij.items()]
            n0 = part.nviol
            try:
                out = PS.check_all_transformed(bij)
                damage(out)
                dups = list(PS.symmetry_duplication(bij))
                damage(dups)
            except Exception as exc:  # noqa
                part.violation("fresh", {"tool": "check_all_transformed", "label": label,
                                         "pairs": [[list(k), list(v)] for k, v in pairs]},
                               {"exception": repr(exc)})
                continue
            if [(tuple(k), tuple(v)) for k, v in bij.items()] != before:
                part.violation("fresh", {"tool": "symmetry_duplication", "label": label,
                                         "pairs": [[list(k), list(v)] for k, v in pairs]},
                               {"the_callers_dict_was_changed": True})
            # ask again: same dict and a new equal dict
            run_bij_case(part, label, pairs, ("check_all_transformed", "symmetry_duplication",
                                              "check_all_preservations"), sub="fresh")
            if part.nviol != n0 and times > 1:
                return


def shard_fresh_tools(shard):
    part = Partial()
    for what in shard:
        fresh_tool_case(part, what)
        part.add(1, 1)
    return part


# --------------------------------------------------------------------------------------------
# ABORT: a BaseException raised at the k-th call event inside an operation (every k), then read back
# --------------------------------------------------------------------------------------------

class _Abort(BaseException):
    pass


def _run_with_abort(fn, k, root):
    """Run fn(); raise _Abort at the k-th 'call' event of a frame whose code lives under root
    (k=None: never).  Returns (finished?, number of such events seen)."""
    import sys
    seen = [0]

    def tracer(frame, event, arg):
        if event == "call" and frame.f_code.co_filename.startswith(root):
            seen[0] += 1
            if seen[0] == k:
                sys.settrace(None)
                raise _Abort()
        return None

    sys.settrace(tracer)
    try:
        fn()
        return True, seen[0]
    except _Abort:
        return False, seen[0]
    finally:
        sys.settrace(None)


class _LibState:
    """Every piece of process-wide state of the library that a call could have written: mutable
    containers and plain values bound at module or class level in permuta.*, and every lru_cache.
    Taken once before an operation is explored, put back before every attempt, so that each
    injection point is explored from the same state (a memo filled by the read-back of the previous
    attempt would otherwise hide all later injection points)."""

    def __init__(self):
        import collections
        import copy
        import sys
        self.conts, self.caches, self.scalars = [], [], []
        for mname, mod in sorted(sys.modules.items()):
            if mod is None or not (mname == "permuta" or mname.startswith("permuta.")):
                continue
            owners = [mod] + [v for v in vars(mod).values()
                              if isinstance(v, type) and getattr(v, "__module__", None) == mname]
            for owner in owners:
                for k, v in list(vars(owner).items()):
                    if k.startswith("__"):
                        continue
                    f = getattr(v, "__func__", v)
                    if hasattr(f, "cache_clear"):
                        self.caches.append(f)
                    elif isinstance(v, (dict, list, set, collections.deque)):
                        self.conts.append((v, copy.copy(v)))
                    elif isinstance(v, (int, float, str, bytes, tuple, frozenset, type(None))):
                        self.scalars.append((owner, k, v))

    def restore(self):
        import collections
        for f in self.caches:
            f.cache_clear()
        for c, saved in self.conts:
            if isinstance(c, dict):
                c.clear()
                c.update(saved)
            elif isinstance(c, list):
                c[:] = saved
            elif isinstance(c, set):
                c.clear()
                c.update(saved)
            elif isinstance(c, collections.deque):
                c.clear()
                c.extend(saved)
        for owner, k, v in self.scalars:
            try:
                if getattr(owner, k, None) is not v:
                    setattr(owner, k, v)
            except Exception:  # noqa - read-only attribute: cannot have been written either
                pass


ABORT_OBSERVERS = ("count_inversions", "cycle_decomp", "order", "rtlmax_ltrmin_decomposition",
                   "longestruns_ascending", "descent_set", "holeyness", "count_stack_sorts",
                   "rank_encoding", "count_bounces")


def _consume(x):
    import collections
    if isinstance(x, (list, tuple, dict, set, collections.deque, int, bool, str)) or x is None:
        return x
    return list(x)


def _read_back_perm(Perm, objs, p, names):
    """first disagreement of the methods `names` on the objects `objs` (all equal to p), or None"""
    for route, obj in objs:
        for nm in names:
            if len(p) < MIN_LEN.get(nm, 0):
                continue
            kind, ref, dev = METHODS[nm]
            exp = expected(kind, ref, p, ())
            got = observe(kind, getattr(obj, nm)(), p, Perm)
            if got != exp and not (dev is not None and got == expected(kind, dev, p, ())):
                return {"route": route, "asked": nm, "expected": exp, "got": got}
    return None


def abort_ops(quick):
    """The operations that are aborted: (descriptor, ...) JSON-able."""
    ops = []
    for n in range(0, 5):
        for p in R.perms(n):
            for name in sorted(METHODS):
                if n < MIN_LEN.get(name, 0):
                    continue
                ops.append(["method", name, list(p)])
    tools = []
    for basis in (None, [[0, 2, 1]]):
        for j in range(len(D.NAMES)):
            tools.append(["distribution_for_length", j, basis, 3])
    for j in range(len(D.NAMES)):
        tools.append(["distribution_up_to", j, [[0, 1, 2]], 2])
        tools.append(["preserved_in", j, "complement", 3])
    tools.append(["check_all_preservations", None, "reverse", 2])
    tools.append(["equally_distributed", None, [[[0, 1, 2]], [[0, 2, 1]]], 1 if quick else 2])
    tools.append(["jointly_equally_distributed", None, [[[0, 1]], [[1, 0]]], 1 if quick else 2])
    tools.append(["symmetry_duplication", None, "inverse", 3])
    if not quick:
        tools.append(["check_all_transformed", None, "reverse", 2])
        tools.append(["equally_distributed", None, [[[1, 0, 2]], [[2, 0, 1]]], 3])
        tools.append(["check_all_preservations", None, "rot90", 3])
    return ops, tools


def _tool_setup(op, Perm, PS):
    """-> (thunk running the tool, Perm objects that go through it, read-back(part, case),
    warm-up thunk: the same tool on neighbouring arguments)"""
    kind, j, arg, n = op
    ents = table_entries(PS)
    by_j = {D.NAMES.index(name): (i, name) for i, name, _ in ents}
    if kind in ("distribution_for_length", "distribution_up_to"):
        i, name = by_j[j]
        st = PS.get_by_index(i)
        cls = mk_class(arg) if arg is not None else None
        objs = [] if cls is None else [q for m in range(n + 1) for q in cls.of_length(m)]

        def thunk():
            if kind == "distribution_for_length":
                return st.distribution_for_length(n, cls)
            return st.distribution_up_to(n, cls)

        def verify(part, case):
            run_dist_case(part, arg, n, stat_names={name}, sub="abort")

        def warm():
            i2 = by_j[(j + 1) % len(D.NAMES)][0] if (j + 1) % len(D.NAMES) in by_j else i
            for st2 in (PS.get_by_index(i2), st):
                st2.distribution_for_length(n, mk_class([[1, 0, 2]]))
                st2.distribution_for_length(max(n - 1, 0), cls)
        return thunk, objs, verify, warm
    if kind in ("equally_distributed", "jointly_equally_distributed"):
        c1, c2 = mk_class(arg[0]), mk_class(arg[1])
        objs = [q for c in (c1, c2) for m in range(n + 1) for q in c.of_length(m)]

        def thunk():
            if kind == "equally_distributed":
                return list(PS.equally_distributed(c1, c2, n))
            return list(PS.jointly_equally_distributed(c1, c2, n, 1))

        def verify(part, case):
            run_pair_case(part, kind, arg[0], arg[1], n, 1, sub="abort")

        def warm():
            w1, w2 = mk_class([[1, 0]]), mk_class([[1, 2, 0]])
            list(PS.equally_distributed(w1, w2, n))
        return thunk, objs, verify, warm
    pairs = [(p, R.apply_sym(arg, p)) for p in R.perms(n)]
    bij = mk_bij(Perm, pairs)
    objs = list(bij.keys()) + list(bij.values())

    def thunk():
        if kind == "preserved_in":
            return PS.get_by_index(by_j[j][0]).preserved_in(bij)
        if kind == "check_all_preservations":
            return list(PS.check_all_preservations(bij))
        if kind == "check_all_transformed":
            return PS.check_all_transformed(bij)
        return list(PS.symmetry_duplication(bij))

    def verify(part, case):
        tool = kind
        # asked again on the SAME dict (its key objects went through the aborted call) ...
        ents2 = table_entries(PS)
        if tool == "preserved_in":
            got = {name for i, name, _ in ents2 if PS.get_by_index(i).preserved_in(bij)}
            exp = [{name for _, name, _ in ents2
                    if all(vec(k, w)[D.NAMES.index(name)] == vec(v, w)[D.NAMES.index(name)]
                           for k, v in pairs)} for w in (0, 1)]
            attribute(part, "abort", case, got, exp[0], exp[1], lambda e: (e,))
        # ... and on a new equal dict
        run_bij_case(part, "sym:%s:S%d" % (arg, n), pairs,
                     (tool,) if tool != "preserved_in" else ("preserved_in", "check_all_preservations"),
                     sub="abort")

    def warm():
        wb = mk_bij(Perm, [(p, R.apply_sym("rot270", p)) for p in R.perms(max(n - 1, 0))])
        if kind == "preserved_in":
            for i2 in sorted({by_j[j][0], by_j[(j + 1) % len(D.NAMES)][0]
                              if (j + 1) % len(D.NAMES) in by_j else by_j[j][0]}):
                PS.get_by_index(i2).preserved_in(wb)
        elif kind == "check_all_preservations":
            list(PS.check_all_preservations(wb))
        elif kind == "check_all_transformed":
            PS.check_all_transformed(wb)
        else:
            list(PS.symmetry_duplication(wb))
    return thunk, objs, verify, warm


def abort_case(part, op, k_list=None, stride=(0, 1)):
    """All injection points of one operation (or those in k_list; or every stride[1]-th one starting
    at 1 + stride[0], so that a long operation is shared between workers).  Returns the number of
    points of the operation."""
    import os
    import signal
    import sys
    from ..core import REPO
    Perm, PS = _lib()
    root = os.path.join(os.path.abspath(REPO), "permuta") + os.sep

    clean = _LibState()

    def setup():
        """library state as before the operation, then one call of the same functionality on a
        DIFFERENT input (so that anything left over from 'the previous call' is wrong for this
        one), then the objects of this attempt"""
        clean.restore()
        if op[0] == "method":
            _, name, p = op
            p = tuple(p)
            q = tuple(reversed(p)) if tuple(reversed(p)) != p else tuple(range(len(p) + 1))
            if len(q) >= MIN_LEN.get(name, 0):
                _consume(getattr(Perm(q), name)())
            obj = Perm(p)
            shared = Perm.to_standard([5 * v + 2 for v in p])
            return (lambda: _consume(getattr(obj, name)()),
                    lambda: _consume(getattr(shared, name)()), obj, shared, p, name)
        st = _tool_setup(op, Perm, PS)
        st[3]()
        return st[:3]

    st = setup()
    _, total = _run_with_abort(st[0], None, root)

    def on_alarm(signum, frame):
        raise TimeoutError("read-back did not finish within 20 s")

    old = signal.signal(signal.SIGALRM, on_alarm)
    old_hook = sys.unraisablehook
    sys.unraisablehook = lambda unraisable: None
    try:
        for k in (k_list if k_list is not None else range(1 + stride[0], total + 1, stride[1])):
            case = {"op": op, "abort_at_call": k}
            st = setup()
            finished, _ = _run_with_abort(st[0], k, root)
            if op[0] == "method":
                # the same injection point on the process-wide shared object of Perm.to_standard
                _run_with_abort(st[1], k, root)
            signal.alarm(20)
            n0 = part.nviol
            try:
                if op[0] == "method":
                    _, _, obj, shared, p, name = st
                    bad = _read_back_perm(Perm, [("aborted object", obj), ("shared to_standard object", shared),
                                                 ("new equal object", Perm(p))], p,
                                          [name] + [o for o in ABORT_OBSERVERS if o != name])
                    if bad:
                        part.violation("abort", case, bad)
                else:
                    thunk, objs, verify = st
                    verify(part, case)
                    for q in objs:
                        bad = _read_back_perm(Perm, [("object that went through the aborted call", q)],
                                              tuple(q), ABORT_OBSERVERS)
                        if bad:
                            part.violation("abort", case, bad)
                            break
            except TimeoutError as exc:
                part.violation("abort", case, {"hang": str(exc)})
            except Exception as exc:  # noqa
                part.violation("abort", case, {"exception_in_read_back": repr(exc)})
            finally:
                signal.alarm(0)
            # violations recorded by the shared helpers carry their own case: re-label them
            if part.nviol != n0:
                for v in part.viols:
                    if v["sub"] == "abort" and "abort_at_call" not in v["case"]:
                        v["detail"] = {"read_back_case": v["case"], "detail": v["detail"]}
                        v["case"] = jsonable_case(case)
            part.add(1, 0 if finished else 1)
    finally:
        signal.signal(signal.SIGALRM, old)
        sys.unraisablehook = old_hook
    return total


def jsonable_case(case):
    from ..core import jsonable
    return jsonable(case)


ABORT_LONG = ("equally_distributed", "jointly_equally_distributed", "check_all_transformed",
              "check_all_preservations")


def shard_abort(shard):
    part = Partial()
    for op in shard:
        stride = (0, 1)
        if op[0] == "stride":
            _, i, nparts, op = op
            stride = (i, nparts)
        total = abort_case(part, op, stride=stride)
        if stride[0] == 0:
            part.bump("abort_points", total)
            part.bump("abort_operations", 1)
    return part


def chunks(n, per):
    total = math.factorial(n)
    return [(lo, min(total, lo + per)) for lo in range(0, total, per)]


# --------------------------------------------------------------------------------------------
# tools: shared helpers.  VEC: perm -> (reference vector, deviation vector), filled by run()
# --------------------------------------------------------------------------------------------

VEC = {}


def vec(p, which):
    v = VEC.get(p)
    if v is None:
        v = VEC[p] = D.table_values(p)
    return v[which]


def attribute(part, sub, case, got, exp_ref, exp_dev, names_of):
    """got / exp_ref / exp_dev are sets of reported elements.  Every element of the symmetric
    difference got ^ exp_ref is either explained by the deviation model of a known table entry
    (it involves that entry's name AND the implementation agrees with the deviation model on
    it) or it is a fresh violation."""
    diff = got ^ exp_ref
    if not diff:
        return
    fresh, known = [], {}
    for e in sorted(diff, key=repr):
        involved = [nm for nm in names_of(e) if nm in SIG]
        if involved and ((e in got) == (e in exp_dev)):
            known.setdefault(involved[0], []).append(e)
        else:
            fresh.append(e)
    if fresh:
        part.violation(sub, case, {"wrong_elements": fresh[:8], "n_wrong": len(fresh),
                                   "reported_but_identity_fails": [e for e in fresh if e in got][:4],
                                   "identity_holds_but_not_reported": [e for e in fresh if e not in got][:4]})
    for nm, es in sorted(known.items()):
        report(part, sub, case, {"explained_by_deviation_model_of": nm, "elements": es[:4]},
               SIG[nm])


def no_dups(part, sub, case, lst):
    if len(set(lst)) != len(lst):
        part.violation(sub, case, {"duplicates_in_output": [x for x, c in Counter(lst).items() if c > 1][:4]})
        return False
    return True


class _Duck:
    """A 'class given as data': only of_length, answering from a fixed table (reference avoiders)."""

    def __init__(self, basis, how, Perm):
        self.basis, self.how, self.Perm = [tuple(b) for b in basis], how, Perm

    def data(self, n):
        return [p for p in R.perms(n) if not any(D.contains(p, b) for b in self.basis)]

    def of_length(self, n):
        perms = [self.Perm(p) for p in self.data(n)]
        if self.how == "list":
            return perms
        if self.how == "tuple":
            return tuple(perms)
        if self.how == "iterator":
            return iter(perms)
        return (q for q in perms)


CLASS_FORMS = ("Av(list)", "Av(reversed tuple)", "Av(iterator)", "Av(set)", "Av(list, repeated)",
               "Av.from_iterable(generator)", "Av(Basis.from_iterable)", "Av.from_string 0-based",
               "Av.from_string 1-based", "Av(Basis)/keywords", "duck list", "duck tuple",
               "duck iterator", "duck generator")


def mk_class(basis, form=None):
    from permuta import Av, Basis, Perm
    ps = [Perm(b) for b in basis]
    form = (form or "Av(Basis)").split("/")[0]
    if form == "Av(Basis)":
        return Av(Basis(*ps))
    if form == "Av(list)":
        return Av(ps)
    if form == "Av(reversed tuple)":
        return Av(tuple(reversed(ps)))
    if form == "Av(iterator)":
        return Av(iter(ps))
    if form == "Av(set)":
        return Av(set(ps))
    if form == "Av(list, repeated)":
        return Av(ps + [Perm(basis[0])])
    if form == "Av.from_iterable(generator)":
        return Av.from_iterable(q for q in ps)
    if form == "Av(Basis.from_iterable)":
        return Av(Basis.from_iterable(iter(ps)))
    if form == "Av.from_string 0-based":
        return Av.from_string("_".join("".join(map(str, b)) for b in basis))
    if form == "Av.from_string 1-based":
        return Av.from_string(", ".join("".join(str(v + 1) for v in b) for b in basis))
    if form.startswith("duck "):
        return _Duck(basis, form.split()[1], Perm)
    raise ValueError(form)


def class_data(cls, nmax):
    if isinstance(cls, _Duck):
        return [cls.data(n) for n in range(nmax + 1)]
    return [[tuple(q) for q in cls.of_length(n)] for n in range(nmax + 1)]


# ---- distributions -------------------------------------------------------------------------

def check_distribution(part, sub, case, got, data, j, name):
    """got: the list returned; data: the permutations (tuples) of the class at that length."""
    exp = Counter(vec(p, 0)[j] for p in data)
    ok = (isinstance(got, list) and sum(got) == len(data)
          and all(got[k] == exp.get(k, 0) for k in range(len(got)))
          and all(k < len(got) for k in exp))
    if ok:
        return exp
    sig = None
    if name in SIG and isinstance(got, list):
        dv = Counter(vec(p, 1)[j] for p in data)
        if sum(got) == len(data) and all(got[k] == dv.get(k, 0) for k in range(len(got))) \
                and all(k < len(got) for k in dv):
            sig = SIG[name]
    report(part, sub, case, {"expected": [exp.get(k, 0) for k in range(max(exp, default=0) + 1)],
                             "got": got, "class_size": len(data)}, sig)
    return exp


def run_dist_case(part, basis, nmax, stat_names=None, form=None, sub="dist"):
    Perm, PS = _lib()
    cls = mk_class(basis, form) if basis is not None else None
    kw = bool(form) and form.endswith("/keywords")
    data = [R.perms(n) for n in range(nmax + 1)] if cls is None else class_data(cls, nmax)
    for i, name, _func in table_entries(PS):
        if stat_names is not None and name not in stat_names:
            continue
        j = D.NAMES.index(name)
        st = PS.get_by_index(i)
        for n in range(nmax + 1):
            case = dict({"tool": "distribution_for_length", "basis": basis, "n": n, "stat": name},
                        **({"form": form} if form else {}))
            try:
                if kw:
                    got = st.distribution_for_length(n=n, perm_class=cls)
                else:
                    got = st.distribution_for_length(n, cls) if cls is not None else \
                        st.distribution_for_length(n)
            except Exception as exc:  # noqa
                part.violation(sub, case, {"exception": repr(exc)})
                continue
            exp = check_distribution(part, sub, case, got, data[n], j, name)
            part.add(1, 1 if len(exp) >= 2 else 0)
        case = dict({"tool": "distribution_up_to", "basis": basis, "n": nmax, "stat": name},
                    **({"form": form} if form else {}))
        try:
            if kw:
                rows = st.distribution_up_to(n=nmax, perm_class=cls)
            else:
                rows = st.distribution_up_to(nmax, cls) if cls is not None else \
                    st.distribution_up_to(nmax)
            rows = list(rows)
        except Exception as exc:  # noqa
            part.violation(sub, case, {"exception": repr(exc)})
            rows = None
        if rows is not None and len(rows) != nmax + 1:
            part.violation(sub, case, {"rows": len(rows), "expected_rows": nmax + 1})
        elif rows is not None:
            for n in range(nmax + 1):
                c2 = dict(case)
                c2["row"] = n
                check_distribution(part, sub, c2, rows[n], data[n], j, name)
        part.add(1, 1 if nmax >= 3 else 0)


def shard_dist(shard):
    bases, nmax = shard
    part = Partial()
    for basis in bases:
        run_dist_case(part, basis, nmax)
    if bases and bases[0] is not None:
        Perm, PS = _lib()
        b = bases[0]
        st = PS.get_by_index(0)
        part.sample({"tool": "distribution_up_to", "basis": b, "stat": st.name,
                     "value": st.distribution_up_to(min(nmax, 4), mk_class(b))}, cap=1)
    return part


# ---- class pairs ---------------------------------------------------------------------------

def _level_data(cls, nmax):
    return [[tuple(q) for q in cls.of_length(n)] for n in range(nmax + 1)]


def _counters(data, idxs, which):
    """per length: the multiset of the value tuples of the statistics idxs over the class."""
    return [Counter(tuple(vec(p, which)[j] for j in idxs) for p in level) for level in data]


def run_pair_case(part, tool, b1, b2, n, dim, form=None, sub="classes"):
    """One call of a two-class tool.  Returns 1 if the case is non-trivial (the expected answer is
    neither empty nor everything)."""
    Perm, PS = _lib()
    c1, c2 = mk_class(b1, form), mk_class(b2, form)
    kw = bool(form) and form.endswith("/keywords")
    ents = table_entries(PS)
    known = {name for _, name, _ in ents}
    idx = {name: D.NAMES.index(name) for name in known}
    case = {"tool": tool, "basis1": b1, "basis2": b2, "n": n, "dim": dim}
    if form:
        case["form"] = form
    d1, d2 = class_data(c1, n), class_data(c2, n)
    try:
        if kw and tool == "equally_distributed":
            out = list(PS.equally_distributed(class1=c1, class2=c2, n=n))
        elif kw and tool == "jointly_equally_distributed":
            out = list(PS.jointly_equally_distributed(class1=c1, class2=c2, n=n, dim=dim))
        elif tool == "equally_distributed":
            out = list(PS.equally_distributed(c1, c2, n))
        elif tool == "jointly_equally_distributed":
            out = list(PS.jointly_equally_distributed(c1, c2, n, dim))
        else:
            out = list(PS.jointly_transformed_equally_distributed(c1, c2, n, dim))
    except Exception as exc:  # noqa
        part.violation(sub, case, {"exception": repr(exc)})
        return 0
    out = [x if isinstance(x, str) else tuple(tuple(y) if not isinstance(y, str) else y for y in x)
           for x in out]
    if not no_dups(part, sub, case, out):
        return 0
    if tool == "equally_distributed":
        got = {x for x in out if x in known}
        exp = [{name for _, name, _ in ents
                if _counters(d1, (idx[name],), w) == _counters(d2, (idx[name],), w)}
               for w in (0, 1)]
        attribute(part, sub, case, got, exp[0], exp[1], lambda e: (e,))
        return 1 if 0 < len(exp[0]) < len(ents) else 0
    if tool == "jointly_equally_distributed":
        # a combination is unordered: a reported tuple is read in table order
        order = {e[1]: e[0] for e in ents}
        got = {tuple(sorted(x, key=order.get)) if len(set(x)) == len(x) else x
               for x in out if all(nm in known for nm in x)}
        exp = []
        for w in (0, 1):
            exp.append({tuple(e[1] for e in combo)
                        for combo in itertools.combinations(ents, dim)
                        if _counters(d1, tuple(idx[e[1]] for e in combo), w)
                        == _counters(d2, tuple(idx[e[1]] for e in combo), w)})
        attribute(part, sub, case, got, exp[0], exp[1], lambda e: e)
        return 1 if 0 < len(exp[0]) < math.comb(len(ents), dim) else 0
    # jointly_transformed_equally_distributed.  Soundness is demanded of every reported pair;
    # completeness only of the pairs (s1 before s2 in the order of itertools.permutations of the
    # table) which the documented implementation enumerates - nothing is demanded about others.
    got = {x for x in out if all(nm in known for nm in x[0]) and all(nm in known for nm in x[1])}
    tuples = [tuple(e[1] for e in t) for t in itertools.permutations(ents, dim)]
    holds, must = [set(), set()], [set(), set()]
    for w in (0, 1):
        cnt1 = [_counters(d1, tuple(idx[nm] for nm in t), w) for t in tuples]
        cnt2 = [_counters(d2, tuple(idx[nm] for nm in t), w) for t in tuples]
        for x in range(len(tuples)):
            for y in range(len(tuples)):
                if x != y and cnt1[x] == cnt2[y]:
                    holds[w].add((tuples[x], tuples[y]))
                    if x < y:
                        must[w].add((tuples[x], tuples[y]))
    attribute(part, sub, case, got, (got & holds[0]) | must[0], (got & holds[1]) | must[1],
              lambda e: e[0] + e[1])
    return 1 if 0 < len(must[0]) < len(tuples) * (len(tuples) - 1) // 2 else 0


def shard_pairs(shard):
    part = Partial()
    for tool, b1, b2, n, dim in shard:
        nt = run_pair_case(part, tool, b1, b2, n, dim)
        part.add(1, nt)
    return part


# ---- bijections ----------------------------------------------------------------------------

def bij_family(n):
    """Named bijections on S_n as lists of (key, value) pairs of tuples, in lexicographic key order
    unless stated."""
    sn = R.perms(n)
    fam = []
    for s in R.SYMS:
        fam.append(("sym:%s:S%d" % (s, n), [(p, R.apply_sym(s, p)) for p in sn]))
    fam.append(("foata:S%d" % n, [(p, D.foata_cycles_to_word(p)) for p in sn]))
    fam.append(("foata-inverse:S%d" % n, [(D.foata_cycles_to_word(p), p) for p in sn]))
    av123 = [p for p in sn if not D.contains(p, (0, 1, 2))]
    fam.append(("simion-schmidt:Av123_%d" % n, [(p, D.simion_schmidt(p)) for p in av123]))
    fam.append(("simion-schmidt-inverse:Av132_%d" % n, [(D.simion_schmidt(p), p) for p in av123]))
    # identity with exactly two images exchanged (first two / last two / first and last key): the
    # identity fails on exactly two items, at the boundary of the iteration
    m = len(sn)
    if m >= 2:
        for a, b in sorted({(0, 1), (m - 2, m - 1), (0, m - 1)}):
            pairs = [(p, p) for p in sn]
            pairs[a], pairs[b] = (sn[a], sn[b]), (sn[b], sn[a])
            fam.append(("identity-but-%d<->%d:S%d" % (a, b, n), pairs))
        # identity with only the LAST item wrong (its image is the first permutation; not injective)
        pairs = [(p, p) for p in sn]
        pairs[-1] = (sn[-1], sn[0])
        fam.append(("identity-but-last:S%d" % n, pairs))
        pairs = [(p, p) for p in sn]
        pairs[0] = (sn[0], sn[-1])
        fam.append(("identity-but-first:S%d" % n, pairs))
    return fam


def bij_family_upto(n):
    """The eight symmetries and foata on the union S_0 u ... u S_n."""
    fam = []
    alls = R.perms_upto(n)
    for s in R.SYMS:
        fam.append(("sym:%s:S<=%d" % (s, n), [(p, R.apply_sym(s, p)) for p in alls]))
    fam.append(("foata:S<=%d" % n, [(p, D.foata_cycles_to_word(p)) for p in alls]))
    return fam


BIJ_FORMS = ("dict reversed insertion", "OrderedDict", "MappingProxyType", "dict subclass",
             "keys built from lists", "dict/keywords")


class _MyDict(dict):
    pass


def mk_bij(Perm, pairs, form=None):
    import collections
    import types
    form = (form or "dict").split("/")[0]
    items = [(Perm(k), Perm(v)) for k, v in pairs]
    if form == "dict":
        return dict(items)
    if form == "dict reversed insertion":
        return dict(reversed(list(dict(items).items())))
    if form == "OrderedDict":
        return collections.OrderedDict(items)
    if form == "MappingProxyType":
        return types.MappingProxyType(dict(items))
    if form == "dict subclass":
        return _MyDict(items)
    if form == "keys built from lists":
        return {Perm(list(k)): Perm(iter(v)) for k, v in pairs}
    raise ValueError(form)


def run_bij_case(part, label, pairs, tools, form=None, sub="bijections"):
    """pairs: list of (key tuple, value tuple).  tools: subset of
    {'preserved_in', 'check_all_preservations', 'check_all_transformed', 'symmetry_duplication'}."""
    Perm, PS = _lib()
    pairs = [(tuple(k), tuple(v)) for k, v in pairs]
    ents = table_entries(PS)
    known = {name for _, name, _ in ents}
    nt = 0
    bij = mk_bij(Perm, pairs, form)
    kw = bool(form) and form.endswith("/keywords")
    items = list(dict(pairs).items())     # later duplicates of a key win, as in the dict above
    pres = [{name for _, name, _ in ents
             if all(vec(k, w)[D.NAMES.index(name)] == vec(v, w)[D.NAMES.index(name)]
                    for k, v in items)} for w in (0, 1)]
    base = {"label": label, "pairs": [[list(k), list(v)] for k, v in pairs]}
    if form:
        base["form"] = form
    def call(case, thunk):
        """the library call alone is guarded: an exception there is an observation"""
        try:
            return True, thunk()
        except Exception as exc:  # noqa
            part.violation(sub, case, {"exception": repr(exc)})
            return False, None

    if "preserved_in" in tools:
        case = dict(base, tool="preserved_in")
        ok, got = call(case, lambda: {name for i, name, _ in ents
                                      if (PS.get_by_index(i).preserved_in(bijection=bij) if kw
                                          else PS.get_by_index(i).preserved_in(bij))})
        if ok:
            attribute(part, sub, case, got, pres[0], pres[1], lambda e: (e,))
    if "check_all_preservations" in tools:
        case = dict(base, tool="check_all_preservations")
        ok, out = call(case, lambda: list(PS.check_all_preservations(bijection=bij) if kw
                                     else PS.check_all_preservations(bij)))
        if ok and no_dups(part, sub, case, out):
            attribute(part, sub, case, {x for x in out if x in known},
                      pres[0], pres[1], lambda e: (e,))
    if "check_all_transformed" in tools:
        case = dict(base, tool="check_all_transformed")
        exp = []
        for w in (0, 1):
            cols_k = [[vec(k, w)[D.NAMES.index(name)] for k, _ in items] for _, name, _ in ents]
            cols_v = [[vec(v, w)[D.NAMES.index(name)] for _, v in items] for _, name, _ in ents]
            exp.append({(ents[a][1], ents[b][1]) for a in range(len(ents))
                        for b in range(len(ents)) if cols_k[a] == cols_v[b]})
        ok, out = call(case, lambda: {a: list(lst) for a, lst in
                                      (PS.check_all_transformed(bijection=bij) if kw
                                       else PS.check_all_transformed(bij)).items()})
        if ok:
            flat = [(a, b) for a, lst in out.items() for b in lst]
            if no_dups(part, sub, case, flat):
                # a key with an empty list reports nothing: not demanded either way
                attribute(part, sub, case,
                          {e for e in flat if e[0] in known and e[1] in known},
                          exp[0], exp[1], lambda e: e)
        if 0 < len(exp[0]) < len(ents) ** 2:
            nt = 1
    if "symmetry_duplication" in tools:
        case = dict(base, tool="symmetry_duplication")
        ok, out = call(case, lambda: [sorted((tuple(k), tuple(v)) for k, v in d.items())
                                      for d in (PS.symmetry_duplication(bijection=bij) if kw
                                                else PS.symmetry_duplication(bij))])
        if ok:
            exp_sd = [sorted((R.apply_sym(s, k), R.apply_sym(s, v)) for k, v in items)
                      for s in R.SYMS]
            if sorted(out) != sorted(exp_sd):
                part.violation(sub, case, {"expected": sorted(exp_sd)[:3],
                                                    "got": sorted(out)[:3], "n_got": len(out)})
    if 0 < len(pres[0]) < len(ents):
        nt = 1
    return nt


def shard_bij(shard):
    part = Partial()
    for label, pairs, tools in shard:
        nt = run_bij_case(part, label, pairs, tools)
        part.add(len(tools), nt)
    if shard:
        label, pairs, tools = shard[len(shard) // 2]
        items = [(tuple(k), tuple(v)) for k, v in pairs]
        part.sample({"bijection": label, "size": len(pairs),
                     "preserved (reference)": sorted(
                         name for j, name in enumerate(D.NAMES)
                         if all(vec(k, 0)[j] == vec(v, 0)[j] for k, v in items))[:6]}, cap=1)
    return part


def all_bijections_s3_shards(per, maps=False):
    s3 = R.perms(3)
    if maps:
        imgs = itertools.product(s3, repeat=6)
    else:
        imgs = itertools.permutations(s3)
    cur, out = [], []
    for x, im in enumerate(imgs):
        cur.append(im)
        if len(cur) == per:
            out.append(cur)
            cur = []
    if cur:
        out.append(cur)
    return out


def shard_bij_s3(shard):
    images, tools, kind = shard
    part = Partial()
    s3 = R.perms(3)
    for im in images:
        pairs = list(zip(s3, im))
        nt = run_bij_case(part, kind, pairs, tools)
        part.add(len(tools), nt)
    return part


# ---- user-defined statistics (pure tool logic) ----------------------------------------------

CUSTOM = {
    "first entry": lambda t: t[0] if t else 0,
    "last entry": lambda t: t[-1] if t else 0,
    "length": lambda t: len(t),
    "zero": lambda t: 0,
    "position of 0": lambda t: t.index(0) if t else 0,
}


def run_custom(part, nmax_bij, nmax_dist, bases):
    Perm, PS = _lib()
    fams = []
    for n in range(nmax_bij + 1):
        fams += bij_family(n)
    fams += bij_family_upto(min(nmax_bij, 3))
    for cname, cf in sorted(CUSTOM.items()):
        st = PS(cname, lambda q, cf=cf: cf(tuple(q)))
        if st.name != cname or str(st) != cname:
            part.violation("custom", {"name": cname}, {"got_name": st.name, "str": str(st)})
        for label, pairs in fams:
            case = {"tool": "preserved_in", "custom": cname, "label": label,
                    "pairs": [[list(k), list(v)] for k, v in pairs]}
            exp = all(cf(k) == cf(v) for k, v in pairs)
            try:
                got = st.preserved_in({Perm(k): Perm(v) for k, v in pairs})
            except Exception as exc:  # noqa
                part.violation("custom", case, {"exception": repr(exc)})
                continue
            if got is not exp:
                part.violation("custom", case, {"expected": exp, "got": got})
            part.add(1, 1 if (not exp and any(cf(k) == cf(v) for k, v in pairs)) else 0)
        for basis in [None] + list(bases):
            cls = mk_class(basis) if basis is not None else None
            for n in range(nmax_dist + 1):
                data = R.perms(n) if cls is None else [tuple(q) for q in cls.of_length(n)]
                exp = Counter(cf(p) for p in data)
                case = {"tool": "distribution_for_length", "custom": cname, "basis": basis, "n": n}
                try:
                    got = st.distribution_for_length(n, cls)
                except Exception as exc:  # noqa
                    part.violation("custom", case, {"exception": repr(exc)})
                    continue
                ok = (sum(got) == len(data) and all(got[k] == exp.get(k, 0) for k in range(len(got)))
                      and all(k < len(got) for k in exp))
                if not ok:
                    part.violation("custom", case, {"expected": sorted(exp.items()), "got": got})
                part.add(1, 1 if len(exp) >= 2 else 0)


# ---- is_prime ------------------------------------------------------------------------------

PRIMES = None


def shard_isprime(shard):
    lo, hi = shard
    from permuta.misc.math import is_prime
    part = Partial()
    nt = 0
    for m in range(lo, hi):
        exp = PRIMES[m] if m >= 0 else False
        try:
            got = is_prime(m)
        except Exception as exc:  # noqa
            part.violation("isprime", {"n": m}, {"exception": repr(exc)})
            continue
        if got != exp:
            part.violation("isprime", {"n": m}, {"expected": exp, "got": got})
        if exp or (m > 3 and m % 2 and m % 3):
            nt += 1      # primes, and composites that survive the 2/3 shortcut (reach the loop)
    part.add(hi - lo, nt)
    return part


# --------------------------------------------------------------------------------------------
# pools
# --------------------------------------------------------------------------------------------

def pool_bases(maxlen, maxsize):
    """All sets of 1..maxsize classical patterns of length 1..maxlen, except those containing the
    empty permutation (none here) - as lists of lists, simplest first.  Non-minimal sets are
    included (Basis reduces them); the class is whatever Av builds from it."""
    pats = [p for n in range(1, maxlen + 1) for p in R.perms(n)]
    out = []
    for r in range(1, maxsize + 1):
        for sub in itertools.combinations(pats, r):
            out.append([list(p) for p in sub])
    return out


def split(seq, k):
    """at most k contiguous chunks (the order of the cases - simplest first - is kept, so the first
    recorded violation of a sub-check is the simplest one)"""
    seq = list(seq)
    if not seq:
        return []
    size = -(-len(seq) // max(1, k))
    return [seq[i:i + size] for i in range(0, len(seq), size)]


# --------------------------------------------------------------------------------------------

def run(ctx, only=None):
    def want(name):
        return only is None or name in only

    global PRIMES
    quick = ctx.quick
    D.selftest(5)
    Perm, PS = _lib()

    ctx.rule = (
        "one evaluation = one (method, permutation, step size) / (table entry, permutation) / "
        "(tool, statistic, class, length) / (tool, bijection) / (tool, class pair) comparison with "
        "the definitional reference, each enumerated once; non-trivial = the reference answer is "
        "non-zero / non-empty (methods, table), the distribution has >= 2 non-zero entries (dist), "
        "the set of reported statistics is neither empty nor everything (bijections, classes), the "
        "integer is prime or a composite that reaches the 6k+-1 loop (isprime)")
    ctx.assumptions = [
        "reference definitions in mc/ref_c11.py (from docstrings and the standard meaning of names)",
        "count_bounces, max_drop_size, holeyness, count_column_sum_primes, foremaxima, afterminima, "
        "aftermaxima, foreminima: cited sources unavailable offline; docstring text + examples are "
        "the definition (max_drop_size = max(p[i]-i) as in the docstring example, not max(i-p[i]))",
        "cycle_decomp is held to being a valid cycle decomposition, not to a canonical order; the "
        "lists returned by foremaxima & co. are compared as sets (built from set intersections)",
        "min_gapsize only for length >= 2; descents/ascents only for step sizes >= 1 or None",
        "classes given as data: the tools are held to the identity on what Av.of_length yields "
        "(the correctness of Av is C02), bijections are arbitrary dicts Perm -> Perm",
        "jointly_transformed_equally_distributed: soundness for all reported pairs, completeness "
        "only for the ordered pairs the documented implementation enumerates",
        "lengths beyond the bounds are not explored",
    ]

    # ---- table structure --------------------------------------------------------------------
    impl_names = [name for name, _ in PS._STATISTICS]
    missing = [n for n in D.NAMES if n not in impl_names]
    extra = [n for n in impl_names if n not in D.FUNC]
    if missing or extra:
        ctx.cap("statistics table differs from the 32 names with a reference: missing=%r extra=%r"
                % (missing, extra))
    if len(set(impl_names)) != len(impl_names):
        ctx.violation("table", {"structure": "duplicate names"}, {"names": impl_names})
    if want("table"):
        for i, (name, func) in enumerate(PS._STATISTICS):
            st = PS.get_by_index(i)
            if st.name != name or st.func is not func or str(st) != name:
                ctx.violation("table", {"structure": "get_by_index", "index": i},
                              {"expected_name": name, "got_name": st.name})
            ctx.add(1, 0)
        listing = PS._predefined_statistics() if hasattr(PS, "_predefined_statistics") else None
        if listing is not None and listing.split("\n") != ["[%d] %s" % (i, nm)
                                                            for i, nm in enumerate(impl_names)]:
            ctx.violation("table", {"structure": "_predefined_statistics"}, {"got": listing[:200]})

    # ---- methods / repeat / table over S<=N --------------------------------------------------
    nmax = 7 if quick else 9
    ntools = 6 if quick else 7          # lengths for which reference vectors are kept for the tools
    need_vec = any(want(x) for x in ("dist", "classes", "bijections"))
    if want("methods") or want("table") or need_vec:
        shards = []
        per = {0: 1, 1: 1, 2: 2, 3: 6, 4: 24, 5: 30, 6: 60, 7: 105, 8: 280, 9: 720}
        top = nmax if (want("methods") or want("table")) else ntools
        for n in range(0, top + 1):
            for lo, hi in chunks(n, per[n]):
                shards.append((n, lo, hi, want("methods"), want("table"),
                               want("methods") and n <= 5, n <= ntools, False))
        # shards are listed shortest permutations first (simplest counterexample first)
        payloads = ctx.pmap(shard_perms, shards)
        for pl in payloads:
            for p, ref, dev in pl or ():
                VEC[p] = (ref, dev)
        ctx.bounds["methods"] = {
            "perm_lengths": "0..%d (all %d permutations)" % (top, sum(math.factorial(k) for k in range(top + 1))),
            "methods": len(METHODS), "step_sizes": "None and 1..n for descents/ascents (8 methods)",
            "second_call_on_same_object": "lengths 0..5"}
        ctx.bounds["table"] = {"perm_lengths": "0..%d" % top, "entries": len(table_entries(PS))}
        ctx.section("methods+table", evaluations=ctx.evals, perms=sum(math.factorial(k) for k in range(top + 1)))

    # ---- scale: above the exhaustive bound --------------------------------------------------------
    if want("scale"):
        e0 = ctx.evals
        shards = []
        slice_n = 9 if quick else 10
        per_slice = 630 if quick else 2520
        for lo in range(0, math.factorial(slice_n - 1), per_slice):
            shards.append(("slice", slice_n, lo, lo + per_slice, False))
        ext_sizes = (9, 10, 11, 12) if quick else (9, 10, 11, 12, 13)
        for n in ext_sizes:
            m = len(D.holey_extremal(n))
            per = {9: 64, 10: 50, 11: 40, 12: 30, 13: 20}[n]
            for lo in range(0, m, per):
                shards.append(("extremal", n, lo, min(m, lo + per), n <= 11))
        sizes = (7, 8, 9, 10, 11, 12, 31, 32, 33, 34, 255, 256, 257, 258) + (() if quick else (300,))
        for n in sizes:
            m = len(D.scale_shapes(n))
            per = 32 if n <= 12 else (16 if n <= 34 else 4)
            for lo in range(0, m, per):
                shards.append(("shapes", n, lo, min(m, lo + per), True))
        nv = len(D.value_family())
        for lo in range(0, nv, 16):
            shards.append(("value", 999, lo, min(nv, lo + 16), True))
        ctx.pmap(shard_scale, shards)
        ctx.pmap(shard_value_tools, [(sym,) for sym in ("inverse", "reverse", "complement", "id")])
        tool_sizes = (33, 257) if quick else (9, 33, 257, 300)
        ctx.pmap(shard_scale_tools, [(n, sym) for n in tool_sizes
                                     for sym in ("reverse", "complement", "inverse", "rot90")])
        ctx.bounds["scale"] = {
            "slice": "all %d permutations of length %d with first entry %d x %d search-type methods %s"
                     % (math.factorial(slice_n - 1), slice_n, slice_n // 2, len(SEARCH), list(SEARCH)),
            "extremal": "ref_c11.holey_extremal(n) for n in %s (%s permutations): all methods; table "
                        "entries for n <= 11" % (list(ext_sizes), [len(D.holey_extremal(n)) for n in ext_sizes]),
            "shapes": "ref_c11.scale_shapes(n) for n in %s (%d permutations): all methods and table "
                      "entries; holeyness for n <= %d, fourpats n <= %d, threepats n <= %d; step sizes "
                      "None, %s, n-1, n beyond length 12"
                      % (list(sizes), sum(len(D.scale_shapes(n)) for n in sizes), HOLEY_MAX,
                         FOURPATS_MAX, THREEPATS_MAX, list(LONG_STEPS)),
            "value": "ref_c11.value_family(): %d permutations (length <= %d) - direct sums of cycles whose "
                     "lengths are the first r primes, r=1..18, the same with one of %s inserted, and the "
                     "reverse / complement / inverse of each; orders up to %d bits (%d above 2**53); methods %s, "
                     "table entries %s, preserved_in of those entries on p -> inverse / reverse / complement "
                     "/ p over the family; reference order = integer lcm of the orbit sizes, verified by "
                     "p**k == id (repeated squaring) and minimality for lengths <= 130"
                     % (nv, max(len(p) for _, p in D.value_family()), list(D.PRIME_POWERS),
                        max(D.order(p).bit_length() for _, p in D.value_family()),
                        sum(1 for _, p in D.value_family() if D.order(p) > 2 ** 53),
                        list(VALUE_METHODS), list(VALUE_TABLE)),
            "tools": "preserved_in of every polynomial table statistic on p -> reverse / complement / "
                     "inverse / rot90 of p over scale_shapes(n), n in %s" % (list(tool_sizes),)}
        ctx.section("scale", evaluations=ctx.evals - e0)

    # ---- convenience constructors -------------------------------------------------------------
    if want("table"):
        for cname, tname in (("inv", "Number of inversions"), ("maj", "Major index"),
                             ("des", "Number of descents"), ("asc", "Number of ascents")):
            ctor = getattr(PS, cname, None)
            if ctor is None:
                continue
            st = ctor()
            if st.name != tname:
                ctx.violation("table", {"structure": "PermutationStatistic.%s" % cname},
                              {"expected_name": tname, "got": st.name})
            j = D.NAMES.index(tname)
            for p in R.perms_upto(6):
                check_table_entry(ctx, Perm, PS, p, tname, st.func, vec(p, 0)[j], vec(p, 1)[j])
                ctx.add(1, 1 if vec(p, 0)[j] else 0)

    # ---- is_prime -----------------------------------------------------------------------------
    if want("isprime"):
        e0 = ctx.evals
        limit = 200_000 if quick else 3_000_000
        PRIMES = D.prime_table(limit)
        step = limit // 64
        shards = [(-50, 0)] + [(lo, min(limit + 1, lo + step)) for lo in range(0, limit + 1, step)]
        ctx.pmap(shard_isprime, shards)
        ctx.bounds["isprime"] = "every integer -50..%d" % limit
        ctx.section("isprime", evaluations=ctx.evals - e0)

    # ---- distributions ------------------------------------------------------------------------
    pool = pool_bases(3, 2)                       # 9 + 36 = 45 bases
    if want("dist"):
        e0 = ctx.evals
        nd = 6 if quick else 7
        shards = [([None], nd)] + [([b], nd) for b in pool]
        if not quick:
            # + 516 bases with a pattern of length 4, explored to length 6
            big = [b for b in pool_bases(4, 2) if max(len(x) for x in b) == 4]
            shards += [(c, 6) for c in split(big, 128)]
        ctx.pmap(shard_dist, shards)
        ctx.bounds["dist"] = ("all 32 table statistics x (all permutations + every class with a basis of "
                              "<=2 patterns of length <=3 (45)) x lengths 0..%d" % nd
                              + ("" if quick else "; + every basis of <=2 patterns of length <=4 with "
                                 "a pattern of length 4 (516) x lengths 0..6"))
        ctx.section("dist", evaluations=ctx.evals - e0)

    # ---- class pairs --------------------------------------------------------------------------
    if want("classes"):
        e0 = ctx.evals
        cases = []
        singles = [b for b in pool if len(b) == 1]
        ne = 4 if quick else 6
        if quick:
            for b1, b2 in itertools.combinations_with_replacement(pool, 2):
                cases.append(("equally_distributed", b1, b2, ne, 1))
        else:
            for b1, b2 in itertools.product(pool, repeat=2):
                cases.append(("equally_distributed", b1, b2, ne, 1))
        jpool = singles if quick else pool
        for b1, b2 in itertools.combinations_with_replacement(jpool, 2):
            cases.append(("jointly_equally_distributed", b1, b2, 4, 2))
        for b1, b2 in itertools.combinations_with_replacement(singles, 2):
            cases.append(("jointly_equally_distributed", b1, b2, 4, 1))
            cases.append(("jointly_transformed_equally_distributed", b1, b2, 4 if quick else 5, 1))
        if not quick:
            for b1, b2 in itertools.combinations_with_replacement(singles[3:], 2):
                cases.append(("jointly_equally_distributed", b1, b2, 3, 3))
        shards = split(cases, 64 if quick else 256)
        ctx.pmap(shard_pairs, shards)
        ctx.bounds["classes"] = {
            "pool": "bases of <=2 patterns of length <=3 (45 classes; 9 single-pattern classes)",
            "equally_distributed": ("all unordered pairs incl. equal (1035), n=%d" % ne) if quick
            else ("all ordered pairs (2025), n=%d" % ne),
            "jointly_equally_distributed": "dim 2, n=4: unordered pairs of the %s; dim 1, n=4: single-pattern classes%s"
            % ("single-pattern classes (45)" if quick else "whole pool (1035)",
               "" if quick else "; dim 3, n=3: pairs of the six length-3 classes (21)"),
            "jointly_transformed_equally_distributed": "dim 1, n=%d, unordered pairs of single-pattern classes (45)" % (4 if quick else 5)}
        ctx.section("classes", evaluations=ctx.evals - e0, cases=len(cases))

    # ---- bijections ---------------------------------------------------------------------------
    if want("bijections"):
        e0 = ctx.evals
        nb = 4 if quick else 5
        all_tools = ("preserved_in", "check_all_preservations", "check_all_transformed",
                     "symmetry_duplication")
        cases = [("empty", [], all_tools)]
        for n in range(nb + 1):
            for label, pairs in bij_family(n):
                cases.append((label, pairs, all_tools))
        for label, pairs in bij_family_upto(nb):
            cases.append((label, pairs, all_tools))
        ctx.pmap(shard_bij, split(cases, 64))
        per = 12 if quick else 9
        s3 = [(chunk, all_tools[:3], "bijection-of-S3")
              for chunk in all_bijections_s3_shards(per)]
        ctx.pmap(shard_bij_s3, s3)
        if not quick:
            m3 = [(chunk, all_tools[:2], "map-S3-to-S3")
                  for chunk in all_bijections_s3_shards(486, maps=True)]
            ctx.pmap(shard_bij_s3, m3)
        ctx.bounds["bijections"] = {
            "families": "8 symmetries, Foata's fundamental map and inverse, Simion-Schmidt and inverse, "
                        "identity with two images exchanged (3 placements), identity with only the "
                        "first / last item wrong, on S_n for n=0..%d; the symmetries and Foata on the "
                        "union S<=%d; the empty dict" % (nb, nb),
            "exhaustive": "all 720 bijections of S_3 onto itself (3 tools)"
                          + ("" if quick else "; all 46656 maps S_3 -> S_3 (preserved_in, check_all_preservations)"),
            "tools": list(all_tools)}
        ctx.section("bijections", evaluations=ctx.evals - e0)

    # ---- FORMS / FRESH / ABORT -------------------------------------------------------------------
    singles = [b for b in pool if len(b) == 1]
    if want("forms"):
        e0 = ctx.evals
        nf = 5 if quick else 6
        ctx.pmap(shard_forms_methods, [(n, lo, hi) for n in range(nf + 1)
                                       for lo, hi in chunks(n, {0: 1, 1: 1, 2: 2, 3: 6, 4: 6, 5: 8, 6: 24}[n])])
        fpool = singles + [pool[i] for i in (12, 20, 30, 40)]
        cases = []
        for form in CLASS_FORMS:
            for b in (fpool if not quick else singles + [pool[20]]):
                cases.append(("dist", b, 3 if quick else 4, form))
            for b1, b2 in itertools.combinations_with_replacement(singles[3:], 2):
                cases.append(("pair", "equally_distributed", b1, b2, 3, 1, form))
            for b1, b2 in itertools.combinations(singles[3:6], 2):
                cases.append(("pair", "jointly_equally_distributed", b1, b2, 3, 2, form))
        all_tools = ("preserved_in", "check_all_preservations", "check_all_transformed",
                     "symmetry_duplication")
        for form in BIJ_FORMS:
            for n in range(0, 4):
                for label, pairs in bij_family(n):
                    cases.append(("bij", label, pairs, all_tools, form))
        ctx.pmap(shard_forms_tools, split(cases, 96))
        ctx.bounds["forms"] = {
            "perm_forms": sorted(perm_forms(Perm)), "methods": "every method (and table function) x every "
            "form x all permutations of length <= %d; step sizes also by keyword" % nf,
            "class_forms": list(CLASS_FORMS), "class_tools": "distribution_for_length/up_to (n<=%d, %d bases), "
            "equally_distributed (21 pairs of length-3 classes, n=3), jointly_equally_distributed (dim 2, 3 pairs)"
            % (3 if quick else 4, len(singles) + 1 if quick else len(fpool)),
            "bijection_forms": list(BIJ_FORMS), "bijection_tools": "4 tools x bijection families on S_n, n<=3"}
        ctx.section("forms", evaluations=ctx.evals - e0)

    if want("fresh"):
        e0 = ctx.evals
        nf = 5 if quick else 6
        ctx.pmap(shard_fresh_methods, [(n, lo, hi) for n in range(nf + 1)
                                       for lo, hi in chunks(n, {0: 1, 1: 1, 2: 2, 3: 6, 4: 12, 5: 15, 6: 45}[n])])
        whats = [("dist", b, 3) for b in [None] + singles]
        for n in range(0, 4):
            whats += [("bij", label, pairs) for label, pairs in bij_family(n)]
        ctx.pmap(shard_fresh_tools, split(whats, 32))
        ctx.bounds["fresh"] = {
            "methods": "%d methods returning lists / deques / Counters / lists of lists (and generators of "
                       "lists) x all permutations of length <= %d; after damaging the result: same object, new "
                       "equal object, shared Perm.to_standard object, every alias" % (
                           len([nm for nm in METHODS if METHODS[nm][0] in CONTAINER_KINDS]), nf),
            "tools": "distribution_for_length / distribution_up_to (32 statistics x (S_n + 9 classes), n=3), "
                     "check_all_transformed + symmetry_duplication (bijection families on S_n, n<=3)"}
        ctx.section("fresh", evaluations=ctx.evals - e0)

    if want("abort"):
        e0 = ctx.evals
        ops, tools = abort_ops(quick)
        nparts = 4 if quick else 12
        tshards = []
        for t in tools:
            if t[0] in ABORT_LONG:
                tshards += [[["stride", i, nparts, t]] for i in range(nparts)]
            else:
                tshards.append([t])
        ctx.pmap(shard_abort, split(ops, 96) + tshards)
        ctx.bounds["abort"] = {
            "operations": "every method on every permutation of length <= 4 (%d operations) + %d tool calls "
                          "(distribution_for_length for the 32 statistics with and without a class, "
                          "distribution_up_to, preserved_in, check_all_preservations, equally_distributed, "
                          "jointly_equally_distributed, symmetry_duplication%s)"
                          % (len(ops), len(tools), "" if quick else ", check_all_transformed"),
            "injection_points": ctx.counters.get("abort_points", 0),
            "read_back": "the aborted method + %d observers on the aborted object, the shared to_standard "
                         "object and a new equal object; for tools the tool again (same and new arguments) "
                         "and the observers on every Perm object that went through the aborted call; 20 s "
                         "alarm" % len(ABORT_OBSERVERS)}
        ctx.section("abort", evaluations=ctx.evals - e0,
                    injection_points=ctx.counters.get("abort_points", 0))

    # ---- user-defined statistics ----------------------------------------------------------------
    if want("custom"):
        e0 = ctx.evals
        run_custom(ctx, 3 if quick else 4, 4 if quick else 5, pool[:9] if quick else pool)
        ctx.bounds["custom"] = "5 user functions x bijection families on S<=%d x (S_n + %d classes) to length %d" % (
            3 if quick else 4, 9 if quick else 45, 4 if quick else 5)
        ctx.section("custom", evaluations=ctx.evals - e0)


# --------------------------------------------------------------------------------------------

def replay(ctx, rec):
    Perm, PS = _lib()
    sub, case = rec["sub"], rec["case"]
    T = 3      # repeat on fresh objects: a failure that needs an earlier call still reproduces
    if sub in ("methods", "repeat"):
        p = tuple(case["perm"])
        check_method(ctx, Perm, p, case["method"], tuple(case["args"]), repeat=True, times=T)
    elif sub == "table":
        if "structure" in case:
            impl_names = [name for name, _ in PS._STATISTICS]
            what = case["structure"]
            if what == "duplicate names":
                if len(set(impl_names)) != len(impl_names):
                    ctx.violation("table", case, {"names": impl_names})
            elif what == "get_by_index":
                i = case["index"]
                name, func = PS._STATISTICS[i]
                st = PS.get_by_index(i)
                if st.name != name or st.func is not func or str(st) != name:
                    ctx.violation("table", case, {"expected_name": name, "got_name": st.name})
            elif what == "_predefined_statistics":
                listing = PS._predefined_statistics()
                if listing.split("\n") != ["[%d] %s" % (i, nm) for i, nm in enumerate(impl_names)]:
                    ctx.violation("table", case, {"got": listing[:200]})
            else:
                st = getattr(PS, what.split(".")[-1])()
                exp = {"inv": "Number of inversions", "maj": "Major index",
                       "des": "Number of descents", "asc": "Number of ascents"}[what.split(".")[-1]]
                if st.name != exp:
                    ctx.violation("table", case, {"expected_name": exp, "got": st.name})
            return
        p = tuple(case["perm"])
        name = case["stat"]
        j = D.NAMES.index(name)
        ref, dev = D.table_values(p)
        funcs = [f for nm, f in PS._STATISTICS if nm == name]
        for cname, tname in (("inv", "Number of inversions"), ("maj", "Major index"),
                             ("des", "Number of descents"), ("asc", "Number of ascents")):
            if tname == name and hasattr(PS, cname):
                funcs.append(getattr(PS, cname)().func)
        n0 = ctx.nviol
        for f in funcs:
            if ctx.nviol == n0:
                check_table_entry(ctx, Perm, PS, p, name, f, ref[j], dev[j], times=T)
    elif sub == "isprime":
        from permuta.misc.math import is_prime
        m = case["n"]
        exp = D.is_prime(m)
        try:
            got = is_prime(m)
        except Exception as exc:  # noqa
            got = repr(exc)
        if got != exp:
            ctx.violation("isprime", case, {"expected": exp, "got": got})
    elif sub in ("dist", "classes", "bijections"):
        # T rounds in this process: a failure that only shows from the second call on (state kept
        # between calls) still reproduces; reported once
        # warm-up on other inputs first (results discarded): state kept by the library between
        # calls with different arguments then shows in the replayed case as it did in the run
        warm = Partial()
        if sub == "dist":
            for wb in ([[0, 1]], None, [[1, 0]]):
                if wb != case["basis"]:
                    run_dist_case(warm, wb, case["n"], stat_names={case["stat"]})
        elif sub == "classes":
            run_pair_case(warm, case["tool"], [[0, 1]], [[1, 0]], case["n"], case["dim"])
        else:
            s2 = R.perms(2)
            run_bij_case(warm, "warm-up", [(p, R.apply_sym("reverse", p)) for p in s2],
                         (case["tool"],))
        for _ in range(T):
            part = Partial()
            if sub == "dist":
                run_dist_case(part, case["basis"], case["n"], stat_names={case["stat"]})
            elif sub == "classes":
                run_pair_case(part, case["tool"], case["basis1"], case["basis2"], case["n"],
                              case["dim"])
            else:
                run_bij_case(part, case["label"], case["pairs"], (case["tool"],))
            if _first(ctx, part, case, rec.get("signature")):
                break
    elif sub == "forms":
        if "method" in case:
            check_method(ctx, Perm, tuple(case["perm"]), case["method"], tuple(case["args"]), times=T,
                         form=case.get("form"), kwargs=case.get("kwargs"), sub="forms")
        elif "stat" in case and "tool" not in case:
            p = tuple(case["perm"])
            ref, dev = D.table_values(p)
            j = D.NAMES.index(case["stat"])
            func = [f for nm, f in PS._STATISTICS if nm == case["stat"]][0]
            for _ in range(T):
                try:
                    got = func(perm_forms(Perm)[case["form"]](p))
                except Exception as exc:  # noqa
                    got = repr(exc)
                if got != ref[j]:
                    report(ctx, "forms", case, {"expected": ref[j], "got": got},
                           SIG[case["stat"]] if (case["stat"] in SIG and got == dev[j]) else None)
                    break
        else:
            for _ in range(T):
                part = Partial()
                if "basis" in case:
                    run_dist_case(part, case["basis"], case["n"], stat_names={case["stat"]},
                                  form=case.get("form"), sub="forms")
                elif "basis1" in case:
                    run_pair_case(part, case["tool"], case["basis1"], case["basis2"], case["n"],
                                  case["dim"], form=case.get("form"), sub="forms")
                else:
                    run_bij_case(part, case["label"], case["pairs"], (case["tool"],),
                                 form=case.get("form"), sub="forms")
                if _first(ctx, part, case, rec.get("signature")):
                    break
    elif sub == "fresh":
        if "method" in case:
            fresh_method_case(ctx, Perm, tuple(case["perm"]), case["method"], tuple(case["args"]),
                              times=T)
        else:
            what = ("dist", case["basis"], case["n"]) if "basis" in case else \
                ("bij", case["label"], case["pairs"])
            for _ in range(T):
                part = Partial()
                fresh_tool_case(part, what)
                hit = [v for v in part.viols if v["sub"] == "fresh" and v["sig"] == rec.get("signature")]
                if hit:
                    ctx.violation("fresh", case, hit[0]["detail"], sig=hit[0]["sig"])
                    break
    elif sub == "abort":
        part = Partial()
        abort_case(part, case["op"], k_list=[case["abort_at_call"]])
        hit = [v for v in part.viols if v["sig"] == rec.get("signature")]
        if hit:
            ctx.violation("abort", case, hit[0]["detail"], sig=hit[0]["sig"])
    elif sub == "scale":
        for _ in range(T):
            part = shard_value_tools((case["sym"],)) if case.get("value_family") else \
                shard_scale_tools((case["scale_n"], case["sym"]))
            if _first(ctx, part, case, rec.get("signature")):
                break
    elif sub == "custom":
        part = Partial()
        cname = case.get("custom") or case.get("name")
        cf = CUSTOM[cname]
        st = PS(cname, lambda q: cf(tuple(q)))
        if "name" in case:
            if st.name != cname or str(st) != cname:
                ctx.violation("custom", case, {"got_name": st.name})
        elif case["tool"] == "preserved_in":
            pairs = [(tuple(k), tuple(v)) for k, v in case["pairs"]]
            exp = all(cf(k) == cf(v) for k, v in pairs)
            try:
                got = st.preserved_in({Perm(k): Perm(v) for k, v in pairs})
            except Exception as exc:  # noqa
                got = repr(exc)
            if got is not exp:
                ctx.violation("custom", case, {"expected": exp, "got": got})
        else:
            basis, n = case["basis"], case["n"]
            cls = mk_class(basis) if basis is not None else None
            data = R.perms(n) if cls is None else [tuple(q) for q in cls.of_length(n)]
            exp = Counter(cf(p) for p in data)
            try:
                got = st.distribution_for_length(n, cls)
                ok = (sum(got) == len(data) and all(got[k] == exp.get(k, 0) for k in range(len(got)))
                      and all(k < len(got) for k in exp))
            except Exception as exc:  # noqa
                got, ok = repr(exc), False
            if not ok:
                ctx.violation("custom", case, {"expected": sorted(exp.items()), "got": got})
    else:
        raise ValueError("unknown sub-check %r" % sub)


def _first(ctx, part, case, sig):
    """Re-report (once) the violation of `part` that belongs to the recorded case, if any."""
    for v in part.viols:
        if v["case"] == case and v["sig"] == sig:
            ctx.violation(v["sub"], case, v["detail"], sig=v["sig"])
            return True
    return False
