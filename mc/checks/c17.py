"""C17 - BiSC output describes its input: sound up to n, complete up to m, irredundant.

E1 (bounded exhaustive enumeration of inputs against the definitions in mc/ref_c17.py):

  subsets3   every non-empty A subset of S<=3, every 1 <= m <= n <= 4
  n4         S<=3-part x subsets of S4 (few / almost all elements), n = 4, every m <= 4
  n5         part of length <= 4 (nothing, everything, Av(p)) x S5-subsets (few / almost all), n = 5
  classes    A = Av(B) cut at n and the complements of such sets (classical bases, every single
             mesh pattern of length <= 2), fourteen named families, n = 5, 6, m <= 4
  private    the algorithm's own containment tests against permutation-in-mesh and mesh-in-mesh
             containment; maximal_mesh_pattern_of_occurrence
  auto       auto_bisc(predicate): the returned description coincides with the predicate on S<=8

For every run (A, m, n) of the first four: well-formed output; soundness on A up to n;
completeness for every non-member up to m; irredundancy of every shaded cell; equal output for
the list in five orders (by length, reversed, tuple order, round robin over the lengths, first
element moved last) / dict / defaultdict / predicate (and n omitted where that means the same);
create_bisc_input partitions S<=U; patterns_suffice_for_good / _bad give the reference verdict up
to U with genuine witnesses; every basis of run_clean_up hits every bad permutation it was run
on; dict_numbs_to_patts and to_sg_format round-trip.
"""
from __future__ import annotations

import contextlib
import io
import itertools

from .. import refmodel as R
from .. import ref_c17 as F
from ..core import Partial

PROPERTY = "C17"
LEVEL = "exploration"

MAXK = 4            # longest learned pattern in any family (m <= 4)
MON_CAP = 16        # clean-up is run on the outputs with <= MON_CAP initial monitors and
PATT_CAP = 12       # <= PATT_CAP learned patterns (its monitor pruning is quadratic in the monitors)


_LIB = []


def _lib():
    if not _LIB:
        import importlib
        from permuta import MeshPatt, Perm
        _LIB.append((Perm, MeshPatt, importlib.import_module("permuta.bisc.bisc"),
                     importlib.import_module("permuta.bisc.bisc_subfunctions")))
    return _LIB[0]


def quiet():
    return contextlib.redirect_stdout(io.StringIO())


# --------------------------------------------------------------------------------------------
# reference tables (built in the parent before forking)
# --------------------------------------------------------------------------------------------

_TABLES = {}


def table(U):
    t = _TABLES.get(U)
    if t is None:
        t = _TABLES[U] = F.OccTable(R.perms_upto(U), MAXK)
    return t


_MIM = {}


def mesh_in_mesh(p, rp, q, sq):
    key = (p, rp, q, sq)
    v = _MIM.get(key)
    if v is None:
        if len(_MIM) > 400000:
            _MIM.clear()
        v = _MIM[key] = F.mesh_in_mesh(p, rp, q, sq)
    return v


# --------------------------------------------------------------------------------------------
# output normalisation
# --------------------------------------------------------------------------------------------

class Malformed(Exception):
    pass


def norm(SG):
    """{length: {pattern tuple: frozenset of frozensets of cells}}; raises Malformed when SG is
    not a dictionary of mesh patterns."""
    if not isinstance(SG, dict):
        raise Malformed("output is not a dict: %r" % (SG,))
    out = {}
    for j, d in SG.items():
        if not isinstance(j, int) or isinstance(j, bool) or j < 0:
            raise Malformed("key %r is not a length" % (j,))
        if not isinstance(d, dict):
            raise Malformed("level %r is not a dict" % (j,))
        lvl = {}
        for p, shs in d.items():
            try:
                tp = tuple(int(v) for v in p)
            except Exception:  # noqa
                raise Malformed("pattern %r is not a permutation" % (p,))
            if len(tp) != j or not R.is_perm(tp):
                raise Malformed("pattern %r under length %r" % (p, j))
            hs = set()
            for sh in shs:
                cells = set()
                for c in sh:
                    c = tuple(c)
                    if len(c) != 2 or not all(isinstance(v, int) and 0 <= v <= j for v in c):
                        raise Malformed("cell %r outside the grid of %r" % (c, tp))
                    cells.add(c)
                hs.add(frozenset(cells))
            if tp in lvl:
                raise Malformed("pattern %r twice" % (tp,))
            lvl[tp] = frozenset(hs)
        out[j] = lvl
    return out


def flatten(N):
    return sorted(((j, p, H) for j, d in N.items() for p, hs in d.items() for H in hs),
                  key=lambda x: (x[0], x[1], sorted(x[2])))


def show(N):
    return [[j, p, sorted(H)] for j, p, H in flatten(N)]


# --------------------------------------------------------------------------------------------
# one run (A, m, n)
# --------------------------------------------------------------------------------------------

KINDS = ("list_rev", "list_lex", "list_round_robin", "list_first_moved_last",
         "dict", "defaultdict", "pred", "n_omitted")


def list_order(kind, A):
    """Orders of the same set for the list representation.  A is sorted by (length, lex)."""
    A = list(A)
    if kind == "list":
        return A
    if kind == "list_rev":                       # longest first
        return A[::-1]
    if kind == "list_lex":                       # plain tuple order: lengths interleave
        return sorted(A)
    if kind == "list_round_robin":               # one of every length in turn
        levels = {}
        for p in A:
            levels.setdefault(len(p), []).append(p)
        out = []
        i = 0
        while len(out) < len(A):
            for k in sorted(levels):
                if i < len(levels[k]):
                    out.append(levels[k][i])
            i += 1
        return out
    if kind == "list_first_moved_last":          # grouped by length, but the first one comes last
        return A[1:] + A[:1]
    raise ValueError(kind)


def call_bisc(kind, A, m, n):
    import collections
    Perm, _, B, _ = _lib()
    maxlen = max(len(p) for p in A)
    if kind.startswith("list"):
        arg = [Perm(p) for p in list_order(kind, A)]
    elif kind == "dict":
        arg = {k: [Perm(p) for p in A if len(p) == k] for k in range(0, max(n, maxlen) + 1)}
    elif kind == "defaultdict":
        arg = collections.defaultdict(list)
        for p in A:
            arg[len(p)].append(Perm(p))
    elif kind == "pred":
        s = set(A)

        def arg(perm):
            return tuple(perm) in s
    elif kind == "n_omitted":
        arg = [Perm(p) for p in A]
        with quiet():
            return B.bisc(arg, m)
    else:
        raise ValueError(kind)
    with quiet():
        return B.bisc(arg, m, n)


def check_case(part, A, m, n, U, kinds=KINDS):
    """All oracles for one input.  A: tuple of permutations (tuples) sorted by (length, lex),
    non-empty; 1 <= m <= n <= U.  kinds: the other input representations to compare with.
    Returns (learned entries, nontrivial flag)."""
    Perm, MeshPatt, B, S = _lib()
    case = {"A": A, "m": m, "n": n, "U": U}
    T = table(U)
    aset = set(A)
    try:
        SG = call_bisc("list", A, m, n)
    except Exception as exc:  # noqa
        part.violation("exception", case, {"call": "bisc(list, m, n)", "exception": repr(exc)})
        return [], 0
    try:
        N = norm(SG)
    except Malformed as exc:
        part.violation("malformed", case, {"problem": str(exc)})
        return [], 0
    learned = flatten(N)
    good = [g for g in A if len(g) <= n]

    # --- soundness: no member of A of length <= n contains a learned pattern
    for (j, p, H) in learned:
        hit = next((g for g in good if T.contains(g, p, H)), None)
        if hit is not None:
            part.violation("sound", case, {"pattern": [p, sorted(H)], "member": hit,
                                           "output": show(N)})
            break
    # --- completeness: every non-member of length <= m contains a learned pattern
    nbad = 0
    done = False
    for k in range(0, m + 1):
        for pi in R.perms(k):
            if pi in aset:
                continue
            nbad += 1
            if not done and not any(T.contains(pi, p, H) for (j, p, H) in learned if j <= k):
                part.violation("complete", case, {"nonmember": pi, "output": show(N)})
                done = True
    # --- irredundancy: a cell can only be dropped if the weaker pattern occurs in a member of A
    #     or mesh-contains a shorter learned pattern
    ncells = 0
    done = False
    for (j, p, H) in learned:
        for c in sorted(H):
            ncells += 1
            if done:
                continue
            H2 = H - {c}
            if any(T.contains(g, p, H2) for g in good):
                continue
            if any(mesh_in_mesh(p, H2, q, Sq) for (i, q, Sq) in learned if i < j):
                continue
            part.violation("irredundant", case, {"pattern": [p, sorted(H)], "cell": c,
                                                 "output": show(N)})
            done = True
    nontrivial = 1 if (ncells and nbad) else 0
    for (j, p, H) in learned:
        part.outcomes.add((j, p, H))

    # --- representations
    maxlen = max(len(p) for p in A)
    part.bump("bisc_calls")
    for kind in kinds:
        if kind == "n_omitted" and maxlen != n:
            continue
        part.bump("bisc_calls")
        try:
            N2 = norm(call_bisc(kind, A, m, n))
        except Malformed as exc:
            part.violation("repr", dict(case, kind=kind), {"problem": str(exc)})
            continue
        except Exception as exc:  # noqa
            part.violation("repr", dict(case, kind=kind), {"exception": repr(exc)})
            continue
        if N2 != N:
            part.violation("repr", dict(case, kind=kind), {"list": show(N), kind: show(N2)})

    # --- create_bisc_input: the partition of S<=U
    def pred(perm):
        return tuple(perm) in aset

    ref_good = {k: [p for p in R.perms(k) if p in aset] for k in range(U + 1)}
    ref_bad = {k: [p for p in R.perms(k) if p not in aset] for k in range(U + 1)}
    Ad = Bd = None
    try:
        with quiet():
            Ad, Bd = B.create_bisc_input(U, pred)
        ok = (isinstance(Ad, dict) and isinstance(Bd, dict)
              and sorted(Ad) == list(range(U + 1)) and sorted(Bd) == list(range(U + 1))
              and all(sorted(map(tuple, Ad[k])) == ref_good[k] for k in range(U + 1))
              and all(sorted(map(tuple, Bd[k])) == ref_bad[k] for k in range(U + 1)))
        if not ok:
            part.violation("input", case, {"call": "create_bisc_input", "good": Ad, "bad": Bd})
            Ad = None
    except Exception as exc:  # noqa
        part.violation("input", case, {"call": "create_bisc_input", "exception": repr(exc)})
        Ad = None
    if Ad is None:
        Ad = {k: [Perm(p) for p in ref_good[k]] for k in range(U + 1)}
        Bd = {k: [Perm(p) for p in ref_bad[k]] for k in range(U + 1)}

    hits = {t: any(T.contains(t, p, H) for (j, p, H) in learned if j <= len(t))
            for k in range(U + 1) for t in R.perms(k)}
    contains_any = hits.__getitem__

    # --- the two sanity checks (they use the private containment test)
    for L in sorted({m, n, U}):
        cex_good = {g for k in range(L + 1) for g in ref_good[k] if contains_any(g)}
        cex_bad = {b for k in range(L + 1) for b in ref_bad[k] if not contains_any(b)}
        for which, fn, D, cex in (("good", S.patterns_suffice_for_good, Ad, cex_good),
                                  ("bad", S.patterns_suffice_for_bad, Bd, cex_bad)):
            for stop in (False, True):
                sub = dict(case, L=L, which=which, stop_on_failure=stop)
                try:
                    with quiet():
                        val, wit = fn(SG, L, D, stop_on_failure=stop)
                    wit = [tuple(w) for w in wit]
                except Exception as exc:  # noqa
                    part.violation("suffice", sub, {"exception": repr(exc)})
                    continue
                if bool(val) != (not cex) or (cex and (not wit or any(w not in cex for w in wit))) \
                        or (not cex and wit):
                    part.violation("suffice", sub, {"got": [val, wit], "counterexamples": sorted(cex),
                                                    "output": show(N)})
                part.bump("suffice_calls")
                if cex:
                    part.bump("suffice_negative_verdicts")

    # --- clean-up
    if SG and SG[min(SG)]:
        kmin = min(SG)
        k0 = len(SG[kmin])
        mon = 1
        for shs in SG[kmin].values():
            mon *= len(shs)
        if mon > MON_CAP or len(learned) > PATT_CAP:
            part.bump("cleanup_not_run_on_large_outputs")
        else:
            flatN = set(flatten(N))
            for lim in (0, k0, k0 + 1):
                sub = dict(case, limit_monitors=lim)
                try:
                    with quiet():
                        if lim == 0:
                            bases, d = S.run_clean_up(SG, Bd)
                        else:
                            bases, d = S.run_clean_up(SG, Bd, U, limit_monitors=lim)
                except Exception as exc:  # noqa
                    part.violation("cleanup", sub, {"exception": repr(exc)})
                    continue
                part.bump("cleanup_calls")
                try:
                    dn = {tuple(k): (k[0], tuple(v[0]), frozenset(map(tuple, v[1])))
                          for k, v in d.items()}
                except Exception as exc:  # noqa
                    part.violation("sgformat", sub, {"dict_numbs_to_patts": d, "exception": repr(exc)})
                    continue
                if set(dn.values()) != flatN or len(dn) != len(flatN):
                    part.violation("sgformat", sub, {"dict_numbs_to_patts": sorted(dn.items()),
                                                     "output": show(N)})
                    continue
                try:
                    with quiet():
                        back = norm(S.to_sg_format(sorted(d), d))
                    if {j: lv for j, lv in N.items() if lv} != back:
                        part.violation("sgformat", sub, {"to_sg_format(all)": show(back),
                                                         "output": show(N)})
                except Exception as exc:  # noqa
                    part.violation("sgformat", sub, {"call": "to_sg_format(all)",
                                                     "exception": repr(exc)})
                for basis in bases:
                    part.bump("cleanup_bases")
                    try:
                        pats = [dn[tuple(ind)] for ind in basis]
                    except KeyError:
                        part.violation("cleanup", sub, {"basis": basis, "problem": "unknown index"})
                        break
                    miss = next((b for L in range(kmin + 1, U + 1) for b in ref_bad[L]
                                 if not any(T.contains(b, p, H) for (j, p, H) in pats)), None)
                    if miss is not None:
                        part.violation("cleanup", sub, {"basis": [[j, p, sorted(H)] for j, p, H in pats],
                                                        "avoided_by_bad_perm": miss,
                                                        "output": show(N)})
                        break
                    try:
                        with quiet():
                            sg = norm(S.to_sg_format(basis, d))
                        if set(flatten(sg)) != set(pats):
                            part.violation("sgformat", sub, {"basis": basis, "to_sg_format": show(sg)})
                            break
                    except Exception as exc:  # noqa
                        part.violation("sgformat", sub, {"basis": basis, "exception": repr(exc)})
                        break
    return learned, nontrivial


def run_cases(cases, all_kinds_always=False):
    """cases: iterable of (A, m, n).  Returns (Partial, set of learned (pattern, shadings)).
    The other input representations are compared at every m (subsets3) or at m = min(2, n)
    (the larger families: the normalisation of the input does not depend on m)."""
    part = Partial()
    entries = set()
    for A, m, n in cases:
        U = universe(n)
        kinds = KINDS if (all_kinds_always or m == min(2, n)) else ()
        learned, nt = check_case(part, A, m, n, U, kinds)
        part.add(1, nt)
        by = {}
        for j, p, H in learned:
            by.setdefault(p, set()).add(H)
        for p, hs in by.items():
            entries.add((p, frozenset(hs)))
        if nt:
            part.sample({"A": A, "m": m, "n": n, "learned": [[p, sorted(H)] for _, p, H in learned]},
                        cap=1)
    return part, entries


def universe(n):
    """Lengths up to which the sanity checks / clean-up are run for runs with bound n."""
    return n + 1 if n <= 4 else n


# --------------------------------------------------------------------------------------------
# families of inputs
# --------------------------------------------------------------------------------------------

POOL3 = R.perms_upto(3)          # 10 permutations, bit i of a mask = POOL3[i]
S4 = R.perms(4)


def part3(mask):
    return tuple(p for i, p in enumerate(POOL3) if mask >> i & 1)


def ten_parts():
    """The S<=3-parts of the design: nothing, everything, each class Av(p), p in S2 u S3."""
    out = [0, (1 << 10) - 1]
    for p in R.perms(2) + R.perms(3):
        mask = 0
        for i, t in enumerate(POOL3):
            if not R.contains(t, p):
                mask |= 1 << i
        out.append(mask)
    return out


def s4_subsets(sizes):
    out = []
    for r in sizes:
        out.extend(itertools.combinations(S4, r))
    return out


def shard_subsets3(shard):
    lo, hi, nmax = shard
    cases = []
    for mask in range(lo, hi):
        A = part3(mask)
        for n in range(1, nmax + 1):
            for m in range(1, n + 1):
                cases.append((A, m, n))
    return run_cases(cases, all_kinds_always=True)


def n4_plan(quick):
    """list of (part mask, tuple of S4-subset sizes); the empty S4-subset belongs to subsets3."""
    ten = ten_parts()
    plan = []
    if quick:
        for mask in ten:
            plan.append((mask, (1, 2, 22, 23, 24)))
    else:
        tens = set(ten)
        for mask in range(0, 1 << 10):
            plan.append((mask, (1, 2, 22, 23, 24) if mask in tens else (1, 23, 24)))
    return plan


def shard_n4(shard):
    mask, sizes, lo, hi = shard
    base = part3(mask)
    cases = []
    for sub in s4_subsets(sizes)[lo:hi]:
        A = base + tuple(sub)
        for m in range(1, 5):
            cases.append((A, m, 4))
    return run_cases(cases)


def n5_lowers():
    """The parts of length <= 4 of the n5 family: nothing, everything, Av(p) for p in S2 u S3."""
    low = [(), tuple(R.perms_upto(4))]
    for p in R.perms(2) + R.perms(3):
        low.append(tuple(t for t in R.perms_upto(4) if not R.contains(t, p)))
    return low


def n5_sizes(quick, li):
    """Sizes of the S5-part for lower part number li (0 = nothing, 1 = everything <= 4)."""
    if quick:
        return (1,)
    return (1, 2, 119, 120) if li == 0 else (1, 119, 120)


def n5_ms(quick):
    return (2, 3, 4) if quick else (1, 2, 3, 4)


def n5_subsets(sizes):
    S5 = R.perms(5)
    out = []
    for r in sizes:
        if r <= 2:
            out.extend(itertools.combinations(S5, r))
        elif r >= 118:
            for gone in itertools.combinations(S5, 120 - r):
                out.append(tuple(q for q in S5 if q not in gone))
        else:
            raise ValueError(r)
    return out


def shard_n5(shard):
    li, lo, hi, quick = shard
    low = n5_lowers()[li]
    cases = []
    for sub in n5_subsets(n5_sizes(quick, li))[lo:hi]:
        for m in n5_ms(quick):
            cases.append((low + sub, m, 5))
    return run_cases(cases)


_LOW5 = []


def f12_member(A, m, n, quick):
    """Is the input (A cut at n, m, n) already enumerated by subsets3 / n4 / n5?"""
    if n <= 3:
        return True
    if n == 5:
        if not _LOW5:
            _LOW5.append({low: li for li, low in reversed(list(enumerate(n5_lowers())))})
        s5 = sum(1 for p in A if len(p) == 5)
        li = _LOW5[0].get(tuple(p for p in A if len(p) <= 4))
        return li is not None and s5 in n5_sizes(quick, li) and m in n5_ms(quick)
    if n > 4:
        return False
    s4 = sum(1 for p in A if len(p) == 4)
    if s4 == 0:
        return True
    p3 = tuple(p for p in A if len(p) <= 3)
    in_ten = any(part3(mk) == p3 for mk in ten_parts())
    if in_ten and (s4 <= 2 or s4 >= 22):
        return True
    return (not quick) and (s4 <= 1 or s4 >= 23)


# ---- classes and named families (own definitions) ------------------------------------------

def stack_pass(p):
    out, st = [], []
    for v in p:
        while st and st[-1] < v:
            out.append(st.pop())
        st.append(v)
    while st:
        out.append(st.pop())
    return tuple(out)


def inversions(p):
    return sum(1 for i in range(len(p)) for j in range(i + 1, len(p)) if p[i] > p[j])


NAMED = {
    "stack_sortable": [((1, 2, 0), ())],
    "smooth": [((0, 2, 1, 3), ()), ((1, 0, 3, 2), ())],
    "forest_like": [((0, 2, 1, 3), ()), ((1, 0, 3, 2), ((2, 2),))],
    "baxter": [((1, 3, 0, 2), ((2, 2),)), ((2, 0, 3, 1), ((2, 2),))],
    "simsun": [((2, 1, 0), ((1, 0), (1, 1), (2, 2)))],
    "hard_mesh": [((0, 1, 2), ((0, 0), (1, 1), (2, 2), (3, 3))),
                  ((0, 1, 2), ((0, 3), (1, 2), (2, 1), (3, 0)))],
    "west_2_stack_sortable": "two passes through a stack sort the permutation",
    "even": "even number of inversions",
}


# shipped predicates, used only to DEFINE further input sets (any set is a legitimate input)
LIB_NAMED = ("dihedral", "in_alternating_group", "yt_perm_avoids_22", "yt_perm_avoids_32",
             "av_231_and_mesh", "quick_sortable")


def lib_named_sets(nmax):
    """{name: members of length <= nmax} for the shipped predicates that exist."""
    import importlib
    Perm = _lib()[0]
    out = {}
    try:
        pp = importlib.import_module("permuta.bisc.perm_properties")
    except Exception:  # noqa
        pp = None
    for name in LIB_NAMED:
        f = getattr(pp, name, None) or getattr(Perm, name, None)
        if f is None:
            continue
        try:
            out[name] = tuple(t for t in R.perms_upto(nmax) if f(Perm(t)))
        except Exception:  # noqa
            continue
    return out


def named_member(name, t):
    d = NAMED[name]
    if name == "west_2_stack_sortable":
        return stack_pass(stack_pass(t)) == tuple(range(len(t)))
    if name == "even":
        return inversions(t) % 2 == 0
    return not any(F.contains_mesh(t, q, frozenset(s)) for q, s in d)


def class_upto(basis, n):
    """basis: list of (pattern, shading).  Members of length <= n, sorted by (length, lex)."""
    return tuple(t for t in R.perms_upto(n)
                 if not any(F.contains_mesh(t, q, frozenset(s)) for q, s in basis))


def classes_plan(quick):
    """list of (basis, co, [(m, n)...]); co: take the permutations that CONTAIN a basis element."""
    plan = []
    pool23 = R.perms(2) + R.perms(3)
    pool = pool23 + R.perms(4)
    cl = [[p] for p in pool] + [list(c) for c in itertools.combinations(pool, 2)]
    small = [[p] for p in pool23] + [list(c) for c in itertools.combinations(pool23, 2)]
    m5 = [(1, 5), (2, 5), (3, 5), (4, 5)]
    for b in cl:
        plan.append(([(p, ()) for p in b], False, m5))
    for k in (1, 2):
        for q in R.perms(k):
            for s in R.all_shadings(k):
                plan.append(([(q, tuple(sorted(s)))], False, [(1, 5), (2, 5), (3, 5)]))
    if quick:
        for b in small:
            plan.append(([(p, ()) for p in b], True, [(3, 5)]))
    else:
        for b in cl:
            plan.append(([(p, ()) for p in b], True, m5))
        for b in cl:
            plan.append(([(p, ()) for p in b], False, [(3, 6), (4, 6)]))
            plan.append(([(p, ()) for p in b], True, [(3, 6)]))
        for k in (1, 2):
            for q in R.perms(k):
                for s in R.all_shadings(k):
                    plan.append(([(q, tuple(sorted(s)))], True, [(2, 5), (3, 5)]))
                    plan.append(([(q, tuple(sorted(s)))], False, [(2, 6), (3, 6)]))
                    if len(s) <= 2 or len(s) >= (k + 1) ** 2 - 2:
                        plan.append(([(q, tuple(sorted(s)))], False, [(4, 6)]))
        for q in R.perms(3):
            for s in R.all_shadings(3):
                if len(s) in (1, 2):
                    plan.append(([(q, tuple(sorted(s)))], False, [(3, 5), (4, 5)]))
    return plan


def build_class_cases(quick):
    """Distinct (A, m, n) of the classes and named families, A cut at n, not already enumerated
    by subsets3 / n4.  Built in the parent (needs the avoider lists once per basis)."""
    seen = set()
    cases = []
    labels = {}

    def put(A, m, n, label):
        A = tuple(p for p in A if len(p) <= n)
        if not A or f12_member(A, m, n, quick):
            return
        key = (A, m, n)
        if key in seen:
            return
        seen.add(key)
        cases.append(key)
        labels[key] = label

    cache = {}
    for basis, co, mns in classes_plan(quick):
        bkey = tuple(basis)
        nmax = max(n for _, n in mns)
        if bkey not in cache or cache[bkey][0] < nmax:
            cache[bkey] = (nmax, set(class_upto(basis, nmax)))
        av = cache[bkey][1]
        A = tuple(t for t in R.perms_upto(nmax) if (t in av) != co)
        for m, n in mns:
            put(A, m, n, "class")
    nnamed = 0
    named_sets = {name: tuple(t for t in R.perms_upto(6) if named_member(name, t)) for name in NAMED}
    named_sets.update(lib_named_sets(6))
    for name in sorted(named_sets):
        A6 = named_sets[name]
        for n in range(1, 7):
            for m in range(1, min(4, n) + 1):
                if quick and (m, n) not in ((2, 5), (3, 5), (4, 5), (3, 6), (4, 6)):
                    continue
                before = len(cases)
                put(A6, m, n, name)
                nnamed += len(cases) - before
    return cases, nnamed


_CLASS_CASES = []


def shard_classes(shard):
    lo, hi = shard
    return run_cases(_CLASS_CASES[lo:hi])


# --------------------------------------------------------------------------------------------
# private containment tests
# --------------------------------------------------------------------------------------------

def priv_perm(part, t, p, Rs):
    """perm_contains_cl_patt_many_shadings and perm_contains_cl_patts_many_shadings."""
    Perm, _, _, S = _lib()
    exp = any(F.contains_mesh(t, p, H) for H in Rs)
    case = {"fn": "perm_contains", "text": t, "patt": p, "Rs": [sorted(H) for H in Rs]}
    try:
        got = S.perm_contains_cl_patt_many_shadings(Perm(t), Perm(p), [set(H) for H in Rs])
        got2 = S.perm_contains_cl_patts_many_shadings(Perm(t), {len(p): {Perm(p): [set(H) for H in Rs]}})
    except Exception as exc:  # noqa
        part.violation("private", case, {"exception": repr(exc)})
        return exp
    if bool(got) != exp or bool(got2) != exp:
        part.violation("private", case, {"expected": exp, "one": got, "many": got2})
    return exp


def priv_mesh(part, p, Sp, q, Rs):
    """mesh_contains_cl_patt_many_shadings and ..._with_positions."""
    Perm, _, _, S = _lib()
    exp = any(F.mesh_in_mesh(p, Sp, q, H) for H in Rs)
    case = {"fn": "mesh_contains", "perm": p, "S": sorted(Sp), "patt": q,
            "Rs": [sorted(H) for H in Rs]}
    try:
        P, Q = Perm(p), Perm(q)
        got = S.mesh_contains_cl_patt_many_shadings(P, set(Sp), Q, [set(H) for H in Rs])
        got2 = S.mesh_contains_cl_patt_many_shadings_with_positions(
            P, set(Sp), list(Q.occurrences_in(P)), [set(H) for H in Rs])
    except Exception as exc:  # noqa
        part.violation("private", case, {"exception": repr(exc)})
        return exp
    if bool(got) != exp or bool(got2) != exp:
        part.violation("private", case, {"expected": exp, "plain": got, "with_positions": got2})
    return exp


def priv_maximal(part, t, idx):
    Perm, _, _, S = _lib()
    exp = F.maximal_shading(t, idx)
    case = {"fn": "maximal", "text": t, "occ": idx}
    try:
        got = S.maximal_mesh_pattern_of_occurrence(Perm(t), tuple(idx))
        got = frozenset(map(tuple, got))
    except Exception as exc:  # noqa
        part.violation("private", case, {"exception": repr(exc)})
        return
    if got != exp:
        part.violation("private", case, {"expected": sorted(exp), "got": sorted(got)})


def mesh_pool(k, limit=None):
    """All (pattern, shading) of length k; with limit: shadings with <= limit or >= all-limit cells."""
    out = []
    total = (k + 1) ** 2
    for q in R.perms(k):
        for s in R.all_shadings(k):
            if limit is None or len(s) <= limit or len(s) >= total - limit:
                out.append((q, s))
    return out


def shard_priv_perm(shard):
    """single shadings: every mesh pattern of the pool x every text of the lengths."""
    k, lo, hi, tlens, limit = shard
    part = Partial()
    pats = mesh_pool(k, limit)[lo:hi]
    for n in tlens:
        for t in R.perms(n):
            for q, s in pats:
                exp = priv_perm(part, t, q, [s])
                part.add(1, 1 if (exp and s and n > k) else 0)
    return part


_ENTRIES = {"all": [], "six": []}


def shard_priv_learned(shard):
    """learned entries (pattern, list of shadings) x every text of the lengths nlo..nhi."""
    which, lo, hi, nlo, nhi = shard
    part = Partial()
    for p, hs in _ENTRIES[which][lo:hi]:
        Rs = sorted(hs, key=sorted)
        for n in range(nlo, nhi + 1):
            for t in R.perms(n):
                exp = priv_perm(part, t, p, Rs)
                part.add(1, 1 if (exp and any(Rs) and n > len(p)) else 0)
    return part


def shard_priv_mesh(shard):
    kp, lo, hi, plimit, kq, qlimit = shard
    part = Partial()
    bigs = mesh_pool(kp, plimit)[lo:hi]
    smalls = mesh_pool(kq, qlimit)
    for p, Sp in bigs:
        for q, s in smalls:
            exp = priv_mesh(part, p, Sp, q, [s])
            part.add(1, 1 if (exp and s) else 0)
    return part


def shard_priv_mesh_two(shard):
    """two shadings of the small pattern (the answer is the disjunction)."""
    kp, lo, hi, plimit, kq = shard
    part = Partial()
    bigs = mesh_pool(kp, plimit)[lo:hi]
    smalls = mesh_pool(kq)
    for p, Sp in bigs:
        for q in R.perms(kq):
            sh = [s for qq, s in smalls if qq == q]
            for s1, s2 in itertools.combinations(sh, 2):
                exp = priv_mesh(part, p, Sp, q, [s1, s2])
                part.add(1, 1 if exp else 0)
    return part


def shard_priv_maximal(shard):
    n, lo, hi = shard
    part = Partial()
    for t in R.perms(n)[lo:hi]:
        for k in range(0, n + 1):
            for idx in itertools.combinations(range(n), k):
                priv_maximal(part, t, idx)
                part.add(1, 1 if 0 < k < n else 0)
    return part


def chunks(total, per):
    return [(lo, min(total, lo + per)) for lo in range(0, total, per)]


# --------------------------------------------------------------------------------------------
# auto_bisc
# --------------------------------------------------------------------------------------------

class NoAnswer(BaseException):
    pass


AUTO_MAXLEN = 8       # the driver is checked on permutations up to this length
AUTO_MAX_N = 6        # ... and may learn from permutations up to this length (all listed predicates
                      # are answered with n <= 6 on the unchanged tree)
AUTO_MAXCLEAN = 400   # calls of run_clean_up
AUTO_CPU_S = 90       # CPU-seconds for one auto_bisc call (the slowest listed one needs about 6)


def auto_members(spec):
    """The predicate as a set of tuples up to length 8, from the definitions."""
    kind, data = spec
    if kind == "named":
        return {t for t in R.perms_upto(AUTO_MAXLEN) if _fast_named(data, t)}
    if kind == "av":
        prof = _profiles()
        out = set()
        for n in range(0, AUTO_MAXLEN + 1):
            out.update(prof.avoiders(data, n))
        return out
    if kind == "mesh1":
        p, S = data
        tab = short_table()[tuple(p)]
        hm = cellmask(S, len(p))
        return {t for t in R.perms_upto(AUTO_MAXLEN) if not any((m & hm) == 0 for m in tab[t])}
    if kind == "pair01":
        tab = short_table()[(0, 1)]
        a, b = cellmask(data[0], 2), cellmask(data[1], 2)
        return {t for t in R.perms_upto(AUTO_MAXLEN)
                if not any((m & a) == 0 or (m & b) == 0 for m in tab[t])}
    raise ValueError(kind)


# ---- predicates "avoid two mesh patterns on the same underlying pattern 01" ------------------

SYM01 = ("id", "inverse", "rot180", "antidiagonal")      # the symmetries of the square fixing 01


def pair01_specs(ncells=4):
    """All unordered pairs of distinct shadings of 01 with exactly ncells cells, one
    representative (the least) of every orbit under the four symmetries that fix 01."""
    sh = [s for s in R.all_shadings(2) if len(s) == ncells]
    reps = set()
    for pair in itertools.combinations(sh, 2):
        best = None
        for sym in SYM01:
            imgs = []
            for s in pair:
                q, img = R.apply_sym_mesh(sym, (0, 1), s)
                assert q == (0, 1)
                imgs.append(tuple(sorted(img)))
            cand = tuple(sorted(imgs))
            if best is None or cand < best:
                best = cand
        reps.add(best)
    return [("pair01", r) for r in sorted(reps)]


def cellmask(cells, k):
    m = 0
    for x, y in cells:
        m |= 1 << (x * (k + 1) + y)
    return m


_SHORT = {}


SHORT_K = 3           # patterns up to this length are tabulated over S<=8


def short_table_chunk(shard):
    """{pattern of length <= 3: {text: tuple of the distinct occupied-cell sets (bit masks) of its
    occurrences}} for the texts of one chunk; plain tabulation of the definition."""
    n, lo, hi = shard
    out = {p: {} for k in range(SHORT_K + 1) for p in R.perms(k)}
    for t in R.perms(n)[lo:hi]:
        acc = {}
        for k in range(0, min(SHORT_K, n) + 1):
            for idx in itertools.combinations(range(n), k):
                p = R.std([t[i] for i in idx])
                acc.setdefault(p, set()).add(cellmask(F.occupied_cells(t, idx), k))
        for p in out:
            out[p][t] = tuple(acc.get(p, ()))
    return None, out


def short_table(ctx=None):
    if not _SHORT:
        shards = [(n, lo, hi) for n in range(AUTO_MAXLEN + 1)
                  for lo, hi in chunks(len(R.perms(n)), 630)]
        res = ctx.pmap(short_table_chunk, shards) if ctx is not None else \
            [short_table_chunk(sh)[1] for sh in shards]
        for k in range(SHORT_K + 1):
            for p in R.perms(k):
                _SHORT[p] = {}
        for d in res:
            for p, m in d.items():
                _SHORT[p].update(m)
    return _SHORT


def describes_short(sgN, t):
    """describes(), with the patterns of length <= 3 looked up in the tabulated occupied cells."""
    tab = short_table()
    rest = {}
    for j, lvl in sgN.items():
        if j > len(t) or not lvl:
            continue
        if j > SHORT_K:
            rest[j] = lvl
            continue
        for p, hs in lvl.items():
            occs = tab[p][t]
            for H in hs:
                hm = cellmask(H, j)
                if any((m & hm) == 0 for m in occs):
                    return False
    return describes(rest, t) if rest else True


_PROF = []


def _profiles():
    if not _PROF:
        _PROF.append(R.Profiles(AUTO_MAXLEN, 4))
    return _PROF[0]


def _fast_named(name, t):
    """named_member, but the mesh test is only made when the underlying classical patterns occur
    (profile lookup); same definition."""
    d = NAMED[name]
    if isinstance(d, str):
        return named_member(name, t)
    prof = _profiles()
    m = prof.prof[t]
    for q, s in d:
        if m & prof.bit[q]:
            if not s or F.contains_mesh(t, q, frozenset(s)):
                return False
    return True


def describes(sgN, t):
    """t avoids every pattern of the normalised description."""
    n = len(t)
    for j, lvl in sgN.items():
        if j > n or not lvl:
            continue
        for idx in itertools.combinations(range(n), j):
            hs = lvl.get(R.std([t[i] for i in idx]))
            if hs is None:
                continue
            occ = F.occupied_cells(t, idx)
            for H in hs:
                if not (occ & H):
                    return False
    return True


def call_auto(form, members):
    """Run auto_bisc on one input form under the divergence guard; returns the raw answer."""
    import collections
    Perm, _, B, S = _lib()
    state = {"clean": 0}
    real_bisc, real_clean = B.bisc, B.run_clean_up

    def guarded_bisc(A, m, n=None, report=False):
        if n is not None and n > AUTO_MAX_N:
            raise NoAnswer("driver wants to learn from permutations of length %d" % n)
        return real_bisc(A, m, n, report)

    def guarded_clean(*a, **kw):
        state["clean"] += 1
        if state["clean"] > AUTO_MAXCLEAN:
            raise NoAnswer("more than %d clean-up rounds" % AUTO_MAXCLEAN)
        return real_clean(*a, **kw)

    def pred(perm):
        if len(perm) > AUTO_MAXLEN:
            raise NoAnswer("driver asks for permutations of length %d" % len(perm))
        return tuple(perm) in members

    if form == "predicate":
        arg = pred
    elif form == "list":
        arg = [Perm(t) for t in sorted(members, key=lambda t: (len(t), t))]
    elif form == "list_lex":
        arg = [Perm(t) for t in sorted(members)]
    elif form == "dicts":
        A, Bd = {}, {}
        for n in range(AUTO_MAXLEN + 1):
            A[n] = [Perm(t) for t in R.perms(n) if t in members]
            Bd[n] = [Perm(t) for t in R.perms(n) if t not in members]
        arg = (A, Bd)
    else:
        raise ValueError(form)
    import signal

    def out_of_time(sig, frm):
        raise NoAnswer("no answer within %d CPU-seconds" % AUTO_CPU_S)

    B.bisc, B.run_clean_up = guarded_bisc, guarded_clean
    old_handler = signal.signal(signal.SIGPROF, out_of_time)
    signal.setitimer(signal.ITIMER_PROF, AUTO_CPU_S)     # CPU time of this process, not wall time
    try:
        with quiet():
            return B.auto_bisc(arg)
    finally:
        signal.setitimer(signal.ITIMER_PROF, 0)
        signal.signal(signal.SIGPROF, old_handler)
        B.bisc, B.run_clean_up = real_bisc, real_clean


def check_auto(part, spec, form):
    case = {"predicate": spec, "form": form}
    members = auto_members(spec)
    try:
        sg = call_auto(form, members)
    except NoAnswer as exc:
        if spec[0] in ("pair01", "mesh1"):
            # not one of the listed predicates that are known to be answered: the property only
            # speaks about returned descriptions
            part.bump("auto_pairs_without_answer")
        else:
            part.violation("auto_no_answer", case, {"problem": str(exc)})
        return None
    except Exception as exc:  # noqa
        part.violation("auto", case, {"exception": repr(exc)})
        return None
    if sg is None:
        part.bump("auto_returned_none")
        return None
    try:
        N = norm(sg)
    except Malformed as exc:
        part.violation("auto", case, {"problem": str(exc)})
        return None
    if any(j > 5 for j in N):
        raise RuntimeError("description with patterns longer than 5: oracle too slow")
    nbad = 0
    for n in range(0, AUTO_MAXLEN + 1):
        for t in R.perms(n):
            inside = t in members
            nbad += 0 if inside else 1
            if (describes_short(N, t) if spec[0] in ("pair01", "mesh1") else describes(N, t)) != inside:
                part.violation("auto", case, {"description": show(N), "perm": t,
                                              "has_property": inside})
                return N
    part.bump("auto_perms_compared", 46234)
    if any(len(hs) > 1 for lvl in N.values() for hs in lvl.values()):
        part.bump("auto_answers_with_several_shadings_on_one_pattern")
    return N


def shard_auto(shard):
    spec, form = shard
    part = Partial()
    N = check_auto(part, spec, form)
    part.add(1, 0 if N is None else 1)
    if N is not None:
        part.sample({"auto_bisc": spec, "form": form, "description": show(N)}, cap=1)
    return part, (None if N is None else show(N))


# ---- the driver's retry path ("A bad basis was chosen"): properties "avoid ONE dense mesh pattern
# of length 3".  The cheap stages (bisc, run_clean_up on the tree under test; sufficiency by the
# tabulated reference) decide exhaustively which properties have a first clean-up basis that covers
# the bad permutations up to the learning length n but not up to 8; those are run end to end.

DENSE_PATT = (2, 0, 1)
DENSE_CORE = ((1, 2), (2, 1), (3, 1))


def dense_specs(quick):
    """thorough: every shading of 201 with at least 11 of the 16 cells (6 885 properties);
    quick: the sub-family of those with exactly 11 cells that leave the cells DENSE_CORE unshaded
    (78 properties) - a fixed sub-family that is known to reach the retry path on the unchanged
    tree (scan of all shadings with >= 9 cells of 012 and 201: the properties whose first basis is
    insufficient up to 8 AND avoided by every good permutation - so that only the re-check of the
    basis stands between it and the answer - are 70 / 23 / 2 of the shadings of 201 with 9 / 10 / 11
    cells, none with more, none of 012; both of the 11-cell ones are in the quick family)."""
    grid = R.all_cells(3)
    out = []
    for r in range(0, 6):
        for free in itertools.combinations(grid, r):
            if quick and not (r == 5 and all(c in free for c in DENSE_CORE)):
                continue
            out.append(("mesh1", (DENSE_PATT, tuple(c for c in grid if c not in free))))
    return out


def ref_suffices_bad(N, bad, L):
    """Every bad permutation of length <= L contains a pattern of N (patterns of length <= 3:
    tabulated occupied cells; longer ones by the definition)."""
    tab = short_table()
    short = [(p, cellmask(H, j)) for j, lvl in N.items() if j <= SHORT_K
             for p, hs in lvl.items() for H in hs]
    rest = {j: lvl for j, lvl in N.items() if j > SHORT_K and lvl}
    for k in range(L + 1):
        for t in bad[k]:
            if any(any((m & hm) == 0 for m in tab[p][t]) for p, hm in short if len(p) <= k):
                continue
            if rest and not describes(rest, t):
                continue
            return False
    return True


def retry_probe(part, spec):
    """Follows the driver's schedule (m, n) = (2, 4), (3, 5), (4, 6) with the library's bisc and
    run_clean_up and the reference for 'suffices up to 8'.  Returns 'retry' when the first basis of
    the clean-up is insufficient up to 8, 'ok' when it suffices, None when no round gets there.
    Also holds patterns_suffice_for_bad to the reference verdict on that basis at n and at 8."""
    Perm, _, B, S = _lib()
    members = auto_members(spec)
    good = {k: [] for k in range(AUTO_MAXLEN + 1)}
    bad = {k: [] for k in range(AUTO_MAXLEN + 1)}
    for t in R.perms_upto(AUTO_MAXLEN):
        (good if t in members else bad)[len(t)].append(t)
    A = {k: [Perm(t) for t in good[k]] for k in good}
    Bd = {k: [Perm(t) for t in bad[k]] for k in bad}
    case = {"predicate": spec}
    n, m = 4, 2
    try:
        with quiet():
            while n <= AUTO_MAX_N:
                SG = B.bisc(A, m, n)
                if SG != {} and ref_suffices_bad(norm(SG), bad, AUTO_MAXLEN):
                    break
                n += 1
                m += 1
            else:
                return None
            ib = len(SG[min(SG)])
            basis = None
            while ib <= 40:
                bases, d = S.run_clean_up(SG, Bd, n, limit_monitors=ib)
                if bases:
                    basis = bases[0]
                    break
                ib += 1
            if basis is None:
                return None
            sg = S.to_sg_format(basis, d)
            sgN = norm(sg)
            verdicts = {}
            for L in (n, AUTO_MAXLEN):
                exp = ref_suffices_bad(sgN, bad, L)
                verdicts[L] = exp
                if L == AUTO_MAXLEN and exp:
                    continue            # the expensive positive scan of S<=8 is left to the driver
                for stop in (True, False):
                    val, wit = S.patterns_suffice_for_bad(sg, L, Bd, stop_on_failure=stop)
                    wit = [tuple(w) for w in wit]
                    okw = all(len(w) <= L and w not in members and describes_short(sgN, w)
                              for w in wit)
                    part.bump("driver_suffice_calls")
                    if bool(val) != exp or not okw or (not exp and not wit):
                        part.violation("suffice_driver", dict(case, L=L, stop_on_failure=stop),
                                       {"basis": show(sgN), "expected": exp, "got": [val, wit]})
    except Malformed as exc:
        part.violation("malformed", case, {"problem": str(exc)})
        return None
    except Exception as exc:  # noqa
        part.violation("exception", case, {"call": "bisc / run_clean_up on the driver's schedule",
                                           "exception": repr(exc)})
        return None
    if verdicts[AUTO_MAXLEN]:
        return "ok"
    # does every good permutation up to 8 avoid that basis?  (otherwise the driver's later check on
    # the good permutations sends it back to learning anyway)
    sound = all(describes_short(sgN, t) for k in good for t in good[k])
    return "retry" if sound else "retry_then_unsound"


_DENSE = []


def shard_retry(shard):
    lo, hi = shard
    part = Partial()
    for spec in _DENSE[lo:hi]:
        st = retry_probe(part, spec)
        part.bump("retry_family_" + str(st))
        nt = 0
        if st in ("retry", "retry_then_unsound"):
            N = check_auto(part, spec, "predicate")
            if N is not None:
                nt = 1
                part.bump("retry_family_answered_end_to_end")
                part.sample({"auto_bisc": spec, "first_basis": "insufficient up to 8",
                             "description": show(N)}, cap=1)
        part.add(1, nt)
    return part, None


_PAIRS = []


def shard_auto_pairs(shard):
    lo, hi = shard
    part = Partial()
    for spec in _PAIRS[lo:hi]:
        N = check_auto(part, spec, "predicate")
        part.add(1, 0 if N is None else 1)
        if N is not None and any(len(hs) > 1 for lvl in N.values() for hs in lvl.values()):
            part.sample({"auto_bisc": spec, "form": "predicate", "description": show(N)}, cap=1)
    return part, None


def auto_plan(quick):
    pool3 = R.perms(3)
    specs = [("named", "stack_sortable"), ("named", "simsun"), ("named", "west_2_stack_sortable"),
             ("named", "hard_mesh")]
    if not quick:
        specs += [("named", "smooth"), ("named", "baxter"), ("named", "forest_like")]
        specs += [("av", (p,)) for p in R.perms(2) + pool3 if p != (1, 2, 0)]
        specs += [("av", c) for c in itertools.combinations(pool3, 2)]
    plan = [(s, "predicate") for s in specs]
    if not quick:
        plan += [(("named", "stack_sortable"), "list"), (("named", "stack_sortable"), "list_lex"),
                 (("named", "stack_sortable"), "dicts"),
                 (("named", "simsun"), "dicts"), (("named", "west_2_stack_sortable"), "dicts")]
    return plan


# --------------------------------------------------------------------------------------------

def run(ctx, only=None):
    import os
    global _CLASS_CASES

    def want(name):
        return only is None or name in only

    quick = ctx.quick
    os.chdir(ctx.work)
    ctx.rule = ("one evaluation = one run bisc(A, m, n) with all oracles (or one containment query "
                "/ one auto_bisc answer checked on S<=8); non-trivial run = the output has at least "
                "one shaded cell (so irredundancy is tested) and at least one non-member of length "
                "<= m exists; non-trivial containment query = a positive answer for a shaded "
                "pattern in a longer text; every (A, m, n) is enumerated once")
    ctx.assumptions = [
        "reference: mc/ref_c17.py + mc/refmodel.py (occupied cells, mesh-in-mesh containment by definition)",
        "dictionary inputs carry every key 0..n (as create_bisc_input produces); a plain dict with "
        "missing lengths raises KeyError and is not demanded to work",
        "m <= n as in the property; duplicates in a list input are not a set and are not explored",
        "irredundancy is the property's: dropping a cell makes the pattern occur in a member of A "
        "(length <= n) or mesh-contain a shorter learned pattern; minimality of the whole output "
        "is not demanded",
        "auto_bisc: a driver that does not answer by learning from permutations of length <= 6, "
        "within 400 clean-up rounds and 90 CPU-seconds on the listed predicates (all are answered on the unchanged tree) "
        "is reported (sub-check auto_no_answer)",
    ]
    entries = set()
    entries6 = set()   # those learned in subsets3 / classes: also run against the texts of length 6
    jobs = []          # (family, function name, shard); one pool runs them all (phase A)

    if want("auto"):
        _profiles()
        plan = auto_plan(quick)
        jobs += [("auto", "shard_auto", sh) for sh in plan]
        short_table(ctx)
        _DENSE[:] = dense_specs(quick)
        jobs += [("auto", "shard_retry", sh) for sh in chunks(len(_DENSE), 8 if quick else 40)]
        if not quick:
            _PAIRS[:] = pair01_specs(4)
            jobs += [("auto", "shard_auto_pairs", sh) for sh in chunks(len(_PAIRS), 4)]
    if want("n4"):
        table(5)
        for mask, sizes in n4_plan(quick):
            total = len(s4_subsets(sizes))
            for lo, hi in chunks(total, 76 if quick else total):
                jobs.append(("n4", "shard_n4", (mask, sizes, lo, hi)))
        ctx.bounds["n4"] = ("n=4, m=1..4; S<=3-part in {nothing, everything, Av(p) for p in S2 u S3} x "
                            "S4-subsets of size 1,2,22,23,24"
                            + ("" if quick else "; every one of the 1024 S<=3-parts x S4-subsets of size 1,23,24"))
    if want("n5"):
        table(5)
        jobs += [("n5", "shard_n5", (li, lo, hi, quick)) for li in range(10)
                 for lo, hi in chunks(len(n5_subsets(n5_sizes(quick, li))), 24 if quick else 60)]
        ctx.bounds["n5"] = ("n=5, m in %s; part of length<=4 in {nothing, everything, Av(p) for p in "
                            "S2 u S3} x S5-subsets of size %s%s"
                            % (list(n5_ms(quick)), list(n5_sizes(quick, 2)),
                               "" if quick else "; for the empty part also all 7140 subsets of size 2"))
    if want("subsets3"):
        for U in (2, 3, 4, 5):
            table(U)
        shards = [(lo, hi, 4) for lo, hi in chunks(1 << 10, 16)]
        shards[0] = (1, shards[0][1], 4)
        jobs += [("subsets3", "shard_subsets3", sh) for sh in shards]
        ctx.bounds["subsets3"] = "all 1023 non-empty subsets of S<=3 x all 1<=m<=n<=4 (10 bound pairs)"
    if want("classes"):
        table(5)
        table(6)
        _CLASS_CASES, nnamed = build_class_cases(quick)
        per = max(1, len(_CLASS_CASES) // 96)
        jobs += [("classes", "shard_classes", sh) for sh in chunks(len(_CLASS_CASES), per)]
        ctx.bounds["classes"] = (
            "A = class cut at n (co = the permutations containing a basis element instead); "
            "all bases of <=2 classical patterns of length 2..4 at m=1..4, n=5; every single mesh "
            "pattern of length 1,2 (all shadings) at m=1..3, n=5; "
            + ("co-classes of bases of <=2 patterns of length<=3 at (3,5); "
               if quick else
               "co-classes of all of these; the classical bases also at (3,6),(4,6) and their "
               "co-classes at (3,6); every single mesh pattern of length<=2 at (2,6),(3,6) (and (4,6) "
               "for <=2 or all-but-<=2 cells); mesh patterns of length 3 with 1 or 2 cells at (3,5),(4,5); ")
            + "named families %s at %s; distinct inputs not already in subsets3/n4/n5: %d (named: %d)"
            % (sorted(NAMED) + ["shipped predicate " + x for x in LIB_NAMED], "(2,5),(3,5),(4,5),(3,6),(4,6)" if quick else "every m<=min(4,n), n<=6",
               len(_CLASS_CASES), nnamed))
    tl = (0, 1, 2, 3, 4, 5)
    if want("private"):
        jobs += [("private", "shard_priv_maximal", (n, lo, hi)) for n in range(0, 6 if quick else 7)
                 for lo, hi in chunks(len(R.perms(n)), 30)]
        # permutation in mesh pattern
        shards = [(0, 0, 2, tl, None), (1, 0, 16, tl, None)]
        shards += [(2, lo, hi, tl, None) for lo, hi in chunks(1024, 32)]
        shards += [(3, lo, hi, (3, 4, 5), 1) for lo, hi in chunks(6 * 34, 12)]
        if not quick:
            shards += [(3, lo, hi, (3, 4, 5), 2) for lo, hi in chunks(len(mesh_pool(3, 2)), 24)]
        jobs += [("private", "shard_priv_perm", sh) for sh in shards]
        # mesh pattern in mesh pattern
        shards = []
        for kp in (0, 1, 2):
            for kq in range(0, kp + 1):
                if quick and kp == 2 and kq == 2:
                    continue
                total = len(mesh_pool(kp))
                for lo, hi in chunks(total, 16 if kp == 2 else total):
                    shards.append((kp, lo, hi, None, kq, None))
        if quick:
            shards += [(2, lo, hi, None, 2, 1) for lo, hi in chunks(1024, 64)]
            shards += [(3, lo, hi, 1, kq, None) for kq in (0, 1) for lo, hi in chunks(6 * 34, 34)]
            shards += [(3, lo, hi, 1, 2, 1) for lo, hi in chunks(6 * 34, 34)]
        else:
            total = len(mesh_pool(3, 2))
            shards += [(3, lo, hi, 2, kq, None if kq < 2 else 2) for kq in (0, 1, 2)
                       for lo, hi in chunks(total, 40)]
        jobs += [("private", "shard_priv_mesh", sh) for sh in shards]
        jobs += [("private", "shard_priv_mesh_two", (kp, lo, hi, None if kp < 2 else 1, kq))
                 for kp in (0, 1, 2) for kq in (0, 1) if kq <= kp
                 for lo, hi in chunks(len(mesh_pool(kp, None if kp < 2 else 1)), 8)]

    payloads = take_violations(ctx, jobs, ctx.pmap(shard_any, jobs))
    auto_res = []
    for (fam, fname, sh), pl in zip(jobs, payloads):
        if fam == "auto":
            if fname == "shard_auto":
                auto_res.append([sh[0], sh[1], pl])
        elif fam != "private" and pl:
            entries |= pl
            if fam in ("subsets3", "classes"):
                entries6 |= pl

    def section(name, **info):
        ctx.section(name, cpu_s=round(ctx.counters.get("cpu_ms_" + name, 0) / 1000.0, 1),
                    evaluations=ctx.counters.get("evaluations_" + name, 0), **info)

    for fam in ("subsets3", "n4", "n5", "classes"):
        if want(fam):
            section(fam)
    if want("auto"):
        answers = sum(1 for r in auto_res if r[2] is not None)
        ctx.bounds["auto"] = {"inputs": [[r[0], r[1]] for r in auto_res],
                              "checked_on": "every permutation of length <= 8 (46 234)",
                              "answers": answers}
        reached = ctx.counters.get("retry_family_retry", 0)
        ctx.bounds["auto"]["retry_path_family"] = (
            "avoid ONE mesh pattern (201,S), %s: %d properties; filtered exhaustively "
            "by bisc + run_clean_up on the driver's schedule and the reference verdict up to 8; "
            "first clean-up basis insufficient up to 8 (= the driver's retry path) for %d of them "
            "(%d of these bases are avoided by every good permutation up to 8, so only the re-check "
            "of the basis protects the answer); all %d are run through auto_bisc and compared with "
            "the predicate on S<=8 (%d answered); patterns_suffice_for_bad held to the reference on "
            "every first basis at n (and at 8 when the verdict is negative)"
            % ("exactly 11 cells shaded, (1,2),(2,1),(3,1) unshaded" if quick
               else "at least 11 of 16 cells shaded",
               len(_DENSE), reached + ctx.counters.get("retry_family_retry_then_unsound", 0), reached,
               reached + ctx.counters.get("retry_family_retry_then_unsound", 0),
               ctx.counters.get("retry_family_answered_end_to_end", 0)))
        if not reached:
            ctx.cap("retry-path family: no property reached the driver's retry path (vacuous)")
        if not quick:
            ctx.bounds["auto"]["pair_predicates"] = (
                "avoid (01,S1) and (01,S2): all unordered pairs of distinct shadings with exactly 4 "
                "cells, one per orbit of the four symmetries fixing 01: %d predicates, input as "
                "predicate, answer compared with the predicate on S<=8; without answer (n<=%d): %d"
                % (len(_PAIRS), AUTO_MAX_N, ctx.counters.get("auto_pairs_without_answer", 0)))
        ctx.extra["auto_descriptions"] = auto_res
        section("auto", answers=answers)
    if want("private"):
        # phase B: the learned entries of this run (pattern with all its shadings) x texts
        def ekey(e):
            return (len(e[0]), e[0], sorted(map(sorted, e[1])))
        _ENTRIES["all"] = sorted(entries, key=ekey)
        _ENTRIES["six"] = [] if quick else sorted(entries6, key=ekey)
        jobs = [("private", "shard_priv_learned", ("all", lo, hi, 0, 5))
                for lo, hi in chunks(len(entries), max(1, len(entries) // 64))]
        jobs += [("private", "shard_priv_learned", ("six", lo, hi, 6, 6))
                 for lo, hi in chunks(len(_ENTRIES["six"]), max(1, len(_ENTRIES["six"]) // 64))]
        take_violations(ctx, jobs, ctx.pmap(shard_any, jobs))
        ctx.bounds["private"] = {
            "maximal_mesh_pattern_of_occurrence": "every index subset of every text of length <= %d" % (5 if quick else 6),
            "perm_contains_cl_patt(s)_many_shadings": (
                "every mesh pattern of length <= 2 (all shadings) x texts of length <= 5; length 3 with "
                "<=%d or >=%d cells x texts of length 3..5; every learned entry (pattern with all its "
                "shadings) of this run (%d entries) x texts of length <= 5%s"
                % (1 if quick else 2, 15 if quick else 14, len(entries),
                   "" if quick else "; the %d entries learned in subsets3/classes x texts of length 6"
                   % len(entries6))),
            "mesh_contains_cl_patt_many_shadings(+_with_positions)": (
                "(perm,S) x (patt,R): all shadings for |patt| <= |perm| <= 2"
                + (" except |patt|=|perm|=2 where R has <=1 or >=8 cells; |perm|=3 with <=1/>=15 cells x "
                   "|patt|<=2 (|patt|=2: <=1/>=8 cells)"
                   if quick else "; |perm|=3 with <=2/>=14 cells x |patt|<=2 (|patt|=2: <=2/>=7 cells)")
                + "; two shadings: all pairs for |patt|<=1, |perm|<=1 and |perm|=2 with <=1/>=8 cells"),
        }
        section("private", learned_entries=len(entries))
    ctx.bounds["clean_up"] = ("run_clean_up with limit_monitors in {0, k0, k0+1} on every output with <= %d "
                              "initial monitors and <= %d learned patterns" % (MON_CAP, PATT_CAP))


def shard_any(job):
    """Dispatcher so that one pool works on all families at once."""
    import time
    fam, fname, shard = job
    t0 = time.process_time()
    res = globals()[fname](shard)
    part, payload = res if isinstance(res, tuple) else (res, None)
    part.counters.pop("cpu_ms", None)
    part.bump("cpu_ms_" + fam, int(1000 * (time.process_time() - t0)))
    part.bump("evaluations_" + fam, part.evals)
    # violations travel in the payload: the parent keeps the first few of EVERY sub-check (the
    # shared merge keeps the first 400 of a run, which one noisy sub-check can fill)
    viols, nviol = part.viols, part.nviol
    part.viols, part.nviol = [], 0
    return part, (payload, viols, nviol)


PER_SUB = 6


FAMILY_RANK = {"subsets3": 0, "n4": 1, "n5": 2, "classes": 3, "private": 4, "auto": 5}


def take_violations(ctx, jobs, results):
    """results: payloads of shard_any for jobs.  Re-reports the first PER_SUB violations of every
    sub-check, simplest family first, job order (= simplest first) within a family; returns the
    inner payloads in job order."""
    kept = {}
    out = [None] * len(jobs)
    order = sorted(range(len(jobs)), key=lambda i: (FAMILY_RANK[jobs[i][0]], i))
    for i in order:
        res = results[i]
        if res is None:          # shard aborted by a library exception: reported by the pool itself
            continue
        payload, viols, nviol = res
        out[i] = payload
        ctx.nviol += nviol
        for v in viols:
            k = kept.setdefault(v["sub"], [])
            if len(k) < PER_SUB:
                k.append(v)
    for sub in sorted(kept):
        ctx.viols.extend(kept[sub])
    return out


# --------------------------------------------------------------------------------------------

class _Only(Partial):
    """Forwards only the violations of one sub-check (a replay re-runs the whole case)."""
    __slots__ = ("target", "sub")

    def __init__(self, target, sub):
        super().__init__()
        self.target, self.sub = target, sub

    def violation(self, sub, case, detail=None, sig=None):
        if sub == self.sub:
            self.target.violation(sub, case, detail, sig)


def replay(ctx, rec):
    import os
    os.chdir(ctx.work)
    sub, case = rec["sub"], rec["case"]
    if sub in ("exception", "malformed", "sound", "complete", "irredundant", "repr", "input",
               "suffice", "cleanup", "sgformat"):
        A = tuple(tuple(p) for p in case["A"])
        check_case(_Only(ctx, sub), A, case["m"], case["n"], case["U"])
    elif sub == "private":
        fn = case["fn"]
        if fn == "perm_contains":
            priv_perm(ctx, tuple(case["text"]), tuple(case["patt"]),
                      [frozenset(map(tuple, H)) for H in case["Rs"]])
        elif fn == "mesh_contains":
            priv_mesh(ctx, tuple(case["perm"]), frozenset(map(tuple, case["S"])), tuple(case["patt"]),
                      [frozenset(map(tuple, H)) for H in case["Rs"]])
        elif fn == "maximal":
            priv_maximal(ctx, tuple(case["text"]), tuple(case["occ"]))
        else:
            raise ValueError(fn)
    elif sub == "suffice_driver":
        kind, data = case["predicate"]
        retry_probe(_Only(ctx, sub), (kind, (tuple(data[0]), tuple(tuple(c) for c in data[1]))))
    elif sub in ("auto", "auto_no_answer"):
        kind, data = case["predicate"]
        if kind == "av":
            data = tuple(tuple(p) for p in data)
        if kind == "pair01":
            data = tuple(tuple(tuple(c) for c in sh) for sh in data)
        if kind == "mesh1":
            data = (tuple(data[0]), tuple(tuple(c) for c in data[1]))
        check_auto(_Only(ctx, sub), (kind, data), case["form"])
    else:
        raise ValueError("unknown sub-check %r" % sub)
