#!/bin/bash
# MANIFEST.setup_cmd: nothing to build (pure Python, /venv/bin/python is present); self-test the engines.
here="$(cd "$(dirname "$0")" && pwd)"
cd "$here" || exit 2
export PYTHONHASHSEED=0 PYTHONDONTWRITEBYTECODE=1 PYTHONPYCACHEPREFIX="$here/.work/nopyc-$$"
mkdir -p evidence .work
exec /venv/bin/python -B -m mc.selftest
