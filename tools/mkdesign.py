#!/venv/bin/python
"""Re-assembles DESIGN.md sections 10.3b, 10.6 and 10.7 from the staging files under .work/ and
seeded/*/meta.json (development helper; DESIGN.md is the committed result)."""
import json, os, re, subprocess, sys
V = os.path.dirname(os.path.dirname(os.path.abspath(__file__)))
W = os.path.join(V, ".work")
s = open(os.path.join(V, "DESIGN.md")).read()
i7 = min(s.index(k) for k in ("### 10.6 Seeded", "### 10.7 What the bounded results") if k in s)
head, tail = s[:i7], s[i7:]
old_gained = open(os.path.join(W, "design_gained_old.md")).read().rstrip("\n")
metas = {}
for name in sorted(os.listdir(os.path.join(V, "seeded"))):
    mp = os.path.join(V, "seeded", name, "meta.json")
    if os.path.exists(mp):
        metas[name] = json.load(open(mp))
def caught(m, tier):
    r = m.get("checks", {}).get("%s/%s" % (m["property"], tier))
    return bool(r and r["exit"] == 1 and r["violations"])
total = len(metas)
q = [n for n, m in metas.items() if caught(m, "quick")]
missed = [n for n in metas if n not in q]
mt = []
for n in missed:
    mt.append("%s (%s)" % (n, "caught by the thorough tier" if caught(metas[n], "thorough") else "NOT caught"))
missed_text = ("the exceptions: " + "; ".join(mt) + " - see 10.7.") if mt else "there is no exception."
h106 = open(os.path.join(W, "design_106_head.md")).read()
h106 = h106.replace("SEEDED_TOTAL", str(total)).replace("SEEDED_CAUGHT", str(len(q))).replace("SEEDED_MISSED_TEXT", missed_text)
table = subprocess.run([sys.executable, os.path.join(V, "tools", "mktables.py")], capture_output=True, text=True).stdout
gained = old_gained + "\n" + open(os.path.join(W, "design_gained_rows.md")).read().rstrip("\n")
b103 = open(os.path.join(W, "design_103b.md")).read().rstrip("\n")
final_tab = os.path.join(W, "design_final_table.md")
if os.path.exists(final_tab):
    b103 += "\n\n" + open(final_tab).read().rstrip("\n")
# insert 10.3b before 10.4 (replace an existing one)
if "### 10.3b" in head:
    a = head.index("### 10.3b"); b = head.index("### 10.4")
    head = head[:a] + b103 + "\n\n" + head[b:]
else:
    b = head.index("### 10.4")
    head = head[:b] + b103 + "\n\n" + head[b:]
out = (head + h106 + "What was added because of a miss:\n\n" + gained + "\n\n"
       + "All seeded changes (generated):\n\n" + table.rstrip("\n") + "\n\n"
       + open(os.path.join(W, "design_107.md")).read())
open(os.path.join(V, "DESIGN.md"), "w").write(out)
print("total", total, "quick-caught", len(q), "missed", missed)
