#!/venv/bin/python
"""Prints the markdown table of seeded changes (DESIGN.md section 10.6) from /verif/seeded/*/meta.json."""
import json, os, sys
V = os.path.dirname(os.path.dirname(os.path.abspath(__file__)))
rows = []
for name in sorted(os.listdir(os.path.join(V, "seeded"))):
    mp = os.path.join(V, "seeded", name, "meta.json")
    if not os.path.exists(mp):
        continue
    m = json.load(open(mp))
    det = []
    for k, r in sorted(m.get("checks", {}).items()):
        if r["exit"] == 1 and r["violations"]:
            det.append("%s: %s" % (k, ", ".join(r["subs"]) or "yes"))
        else:
            det.append("%s: MISSED" % k)
    def clean(s):
        return " ".join(str(s).replace("|", "/").split())
    rows.append("| %s | %s | %s | %s | %s |" % (name, m.get("property"), clean(m.get("summary", ""))[:260],
                                             clean(m.get("needs", ""))[:300], "; ".join(det) or "not run"))
print("| id | property | change | needs, in order to manifest | caught by (sub-checks) |")
print("|---|---|---|---|---|")
print("\n".join(rows))
