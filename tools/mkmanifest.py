#!/venv/bin/python
"""Regenerates /verif/MANIFEST.json from the table below (kept here so that the manifest stays
valid and consistent with the check modules that actually exist)."""
import json, os, sys
V = os.path.dirname(os.path.dirname(os.path.abspath(__file__)))
props = [json.loads(l) for l in open(os.path.join(V, "properties.jsonl"))]

MC = "model_checking"
EX = "exploration"
T = {
 "C01": (MC, "bounded exhaustive enumeration of all (pattern, text) pairs against a definitional reference + explicit-state BFS over search/generator histories on one pattern object",
         "Exhaustive within the stated lengths (texts <= 6 quick / <= 8 thorough, all colourings for small sizes) and history depth (5/6 operations, 3 live generators); every case runs on the real code and is compared with combinations+standardisation. For longer patterns (to length 8/9) a deviation of the documented floor/ceiling helper is used as a guide to search extensions of the pattern for a really wrong (pattern, text) pair.",
         "reference model mc/refmodel.py; lengths beyond the bounds and histories deeper than the bound are not explored", "5/C01"),
 "C02": (MC, "bounded exhaustive enumeration of bases x request orders against reference levels + explicit-state BFS over query/iterator/clear_cache histories on real Av objects",
         "All bases of the stated families (all subsets of S1..S3, all <=2 (thorough <=3) element bases over S<=4, all mesh patterns of length <=2 as single-element bases, pairs from a mesh pool) with four request orders (incl. an instance held across clear_cache) and all observers, levels to 6/7(8); deep levels to 11-13 for S3-based bases against a downward-closure reference; BFS over operation histories to depth 3/4 with exact canonical states, five initial states and every live iterator drained after every history. Three recorded known findings (mesh classes) are matched through deviation models.",
         "reference levels: pattern-profile table (self-tested against the naive definition) and definitional mesh filter; order inside one length is not demanded", "5/C02"),
 "C07": (MC, "stateless schedule exploration of real threads under a cooperative scheduler, iterative preemption bounding (DFS over choice sequences)",
         "Every schedule of eight two-thread harnesses within preemption bound 2 and of a three-thread harness within bound 1 (thorough: bound 3 for four small harnesses, three threads bound 2, four threads bound 1; 2.07M executions); scheduling points = line events in permuta/perm_sets/*.py and lock creation/acquisition; deadlock and hang detection; each execution's answers compared with the reference; recorded schedules replay deterministically.",
         "CPython GIL semantics; shared class state only touched from permuta/perm_sets/*.py; library locks replaced from outside by cooperative locks; switches between two bytecodes not separated by an attribute/subscript read or a call, and more preemptions than the bound, are not explored (opcode granularity is not reproducible under adaptive specialisation)", "5/C07"),
}
# properties whose check module is finished are added here as the work proceeds
EXTRA = os.path.join(V, "tools", "manifest_extra.json")
READY = {"C01", "C02", "C07"}
if os.path.exists(EXTRA):
    for k, v in json.load(open(EXTRA)).items():
        if k == "_ready":
            READY |= set(v)
        else:
            T[k] = tuple(v)
T = {k: v for k, v in T.items() if k in READY}
# families and dimensions added after the adversarial seeded waves g-i (DESIGN.md 10.3b)
ADD = {
 "C01": "Added later: structured long texts at sizes straddling the runtime's thresholds and the constants named by the code (8-12, 31-34, 255-258, 300, ...), with sparse colourings; abort injection (an exception at every function entry of a search, then read-back).",
 "C02": "Added later: every argument form x entry point for ordered lists of 1-3 mixed patterns; abort injection into every query and into the construction of the class, then read-back.",
 "C03": "Added later: scale families (pattern nearly as long as the text at n = 9-12, 31-34, 255-258; several shaded cells in one line of a long pattern), argument forms, damage of returned lists, abort injection.",
 "C04": "Added later: mixed-length sets with one long element in several presentations, operations and equivariance on long objects (also beyond the constants named by the code), helper chains, 12 argument forms, damage of the returned set, abort injection (19 008 points).",
 "C05": "Added later: cache pressure (2**16+ other classes constructed while six are held), 17-18 argument forms x 7-10 entry points, long patterns with holes in MeshBasis pruning, abort injection into construction.",
 "C06": "Added later: sub_mesh_pattern on long patterns with sparse/large index sets in 6-9 input forms, damage of the result, abort injection.",
 "C07": "Added later: granularities 'calls' (entry/return of callees of a watched line) and 'expr' (after every attribute/subscript read and call return in perm_sets, by AST instrumentation at import) - every two-thread harness at bound 1 (thorough bound 2) with 'expr'; scheduling points also in every state-writing function of other modules (AST scan); singleton state restored per execution; harnesses for finite classes.",
 "C08": "Added later: structured long objects at the runtime thresholds (pair laws, sorted from 13 arrangements, Basis from 7), damage of handed-in/handed-out containers, abort injection, BFS over objects derived from used objects against freshly constructed equal ones.",
 "C09": "Added later: rank/unrank on every block boundary and around 2**52..2**70 for lengths 13-26/40, long sizes, mesh grids to k = 8/10, container forms x element types, aliasing, abort injection.",
 "C10": "Added later: ~22 shapes at the runtime thresholds with every index/value/amount near 0, 8, 32, 256, 257, n-1 as fresh ints, 11 construction routes, argument forms, damage of results, abort injection.",
 "C11": "Added later: all of S9 (S10) with a fixed first entry for the search-type methods, extremal and structured long families, cycle types driving order() across 2**53 and 2**64, argument/class/bijection forms, damage of results, abort injection.",
 "C12": "Added later: all avoiders of length 9-10 (11-12) and block shapes at the thresholds for Simion-Schmidt, 24 shapes around every constant named by the code incl. the recursion limit for the sorting operators, BFS over live generators of dihedral_group, damage of helper results.",
 "C13": "Added later: bases {p, s(p)} + reference-computed completion for every p of length <= 5/7, long elements with prescribed descent sets + completion, further argument forms and Av routes, abort injection (74 902 / 129 405 points).",
 "C14": "Added later: periodic words to length 12/20 against Lemma 3.12 evaluated directly (self-overlapping tails), argument forms, damage of returned lists, abort injection into first-time table builds and decodes.",
 "C15": "Added later: per-pin-word automata compared exactly with an own construction for every strict pin word of length <= 10/13, argument forms, abort injection and every truncation of a stored automaton.",
 "C16": "Added later: 12 argument forms x 6 targets, abort injection (one forked process per point), bases with two long elements of the same length (non-pin / pin permutations of length 6) in every order.",
 "C17": "Added later: the 'bad basis' retry path of auto_bisc as an explored branch - a family of dense one-pattern properties classified with the reference, those reaching the path run end to end.",
 "C18": "Added later: lengths 7-8 (9) with 1-2 box shadings against a polynomial re-statement of the lemmas, damage of every returned container, BFS over derived patterns (rotate/shade/add_point) against fresh equal ones.",
 "C19": "Added later: abort injection into find_strategies/applies with read-back in two orders, mixed-length bases (short + length 5) selected with the reference for the slow strategy.",
 "C20": "Added later: a 17-name alphabet (dots, prefixes, .json, spaces, dotted directory) for every ordered pair of data sets, damage-and-re-read on every read.",
}
for _k, _a in ADD.items():
    if _k in T:
        lv, tech, text, note, ref = T[_k]
        T[_k] = (lv, tech, text + " " + _a, note, ref)

checks, na = [], []
for p in props:
    pid = p["id"]
    if pid in T and os.path.exists(os.path.join(V, "mc", "checks", pid.lower() + ".py")):
        level, tech, text, note, ref = T[pid]
        checks.append({
            "property_id": pid,
            "quick_cmd": "./check %s --tier quick" % pid,
            "thorough_cmd": "./check %s --tier thorough" % pid,
            "evidence_file": "/verif/evidence/%s.json" % pid,
            "replay_cmd_template": "./check %s --replay {path}" % pid,
            "engine": "mc",
            "level_claimed": {"category": level, "text": text, "design_ref": "DESIGN.md section " + ref},
            "level_note": note,
            "technique": tech,
        })
    else:
        na.append({"property_id": pid, "reason": "not claimed yet: the bounded-exhaustive check for this property is still under construction (the technique applies; see DESIGN.md section 5)"})
man = {
 "version": 1,
 "setup_cmd": "./setup.sh",
 "hooks": {"guard": "PERMUTA_VERIF", "enable": "no source hooks are needed: locks, caches and memo tables are reached from outside (mc/sched.py cooperative_locks, cache resets by name); the guard name is reserved and unused",
           "baseline_off_cmd": "cd /repo && /venv/bin/python -m pytest -ra -q -p no:cacheprovider --timeout=900 --continue-on-collection-errors",
           "source_commits": [], "add_only": True},
 "engines": [
  {"name": "mc", "path": "/verif/mc", "serves_properties": [c["property_id"] for c in checks],
   "kind_free_text": "hand-written explicit-state / stateless explorers in Python running the real library: E1 bounded exhaustive input enumeration against a reference model, E2 BFS over operation histories (mc/explore.py), E3 thread-schedule exploration with preemption bounding (mc/sched.py), E4 automata product exploration, E5 truncation-point enumeration, E6 abort injection at every function entry of an operation followed by read-back"}],
 "checks": checks,
 "not_applicable": na,
 "notes": "All checks: ./check <id> --tier quick|thorough from /verif; VERIF_SEED rotates enumeration order only; VERIF_REPO overrides the repository under test. Known findings: /verif/known_findings.json.",
}
json.dump(man, open(os.path.join(V, "MANIFEST.json"), "w"), indent=1)
print("checks:", [c["property_id"] for c in checks], "not_applicable:", len(na))
