#!/venv/bin/python
"""Regenerates /verif/MANIFEST.json from the table below (kept here so that the manifest stays
valid and consistent with the check modules that actually exist)."""
import json, os, sys
V = os.path.dirname(os.path.dirname(os.path.abspath(__file__)))
props = [json.loads(l) for l in open(os.path.join(V, "properties.jsonl"))]

MC = "model_checking"
EX = "exploration"
T = {
 "C01": (MC, "bounded exhaustive enumeration of all (pattern, text) pairs against a definitional reference + explicit-state BFS over search/generator histories on one pattern object",
         "Exhaustive within the stated lengths (texts <= 6 quick / <= 8 thorough, all colourings for small sizes) and history depth (5/6 operations, 3 live generators); every case runs on the real code and is compared with combinations+standardisation. For longer patterns (to length 8/9) a deviation of the documented floor/ceiling helper is used as a guide to search extensions of the pattern for a really wrong (pattern, text) pair.",
         "reference model mc/refmodel.py; lengths beyond the bounds and histories deeper than the bound are not explored", "5/C01"),
 "C02": (MC, "bounded exhaustive enumeration of bases x request orders against reference levels + explicit-state BFS over query/iterator/clear_cache histories on real Av objects",
         "All bases of the stated families (all subsets of S1..S3, all <=2 (thorough <=3) element bases over S<=4, all mesh patterns of length <=2 as single-element bases, pairs from a mesh pool) with four request orders (incl. an instance held across clear_cache) and all observers, levels to 6/7(8); deep levels to 11-13 for S3-based bases against a downward-closure reference; BFS over operation histories to depth 3/4 with exact canonical states, five initial states and every live iterator drained after every history. Three recorded known findings (mesh classes) are matched through deviation models.",
         "reference levels: pattern-profile table (self-tested against the naive definition) and definitional mesh filter; order inside one length is not demanded", "5/C02"),
 "C07": (MC, "stateless schedule exploration of real threads under a cooperative scheduler, iterative preemption bounding (DFS over choice sequences)",
         "Every schedule of eight two-thread harnesses within preemption bound 2 and of a three-thread harness within bound 1 (thorough: bound 3 for four small harnesses, three threads bound 2, four threads bound 1; 2.07M executions); scheduling points = line events in permuta/perm_sets/*.py and lock creation/acquisition; deadlock and hang detection; each execution's answers compared with the reference; recorded schedules replay deterministically.",
         "CPython GIL semantics; shared class state only touched from permuta/perm_sets/*.py; library locks replaced from outside by cooperative locks; switches inside one source line and more preemptions than the bound are not explored (opcode granularity is not reproducible under adaptive specialisation)", "5/C07"),
}
# properties whose check module is finished are added here as the work proceeds
EXTRA = os.path.join(V, "tools", "manifest_extra.json")
READY = {"C01", "C02", "C07"}
if os.path.exists(EXTRA):
    for k, v in json.load(open(EXTRA)).items():
        if k == "_ready":
            READY |= set(v)
        else:
            T[k] = tuple(v)
T = {k: v for k, v in T.items() if k in READY}

checks, na = [], []
for p in props:
    pid = p["id"]
    if pid in T and os.path.exists(os.path.join(V, "mc", "checks", pid.lower() + ".py")):
        level, tech, text, note, ref = T[pid]
        checks.append({
            "property_id": pid,
            "quick_cmd": "./check %s --tier quick" % pid,
            "thorough_cmd": "./check %s --tier thorough" % pid,
            "evidence_file": "/verif/evidence/%s.json" % pid,
            "replay_cmd_template": "./check %s --replay {path}" % pid,
            "engine": "mc",
            "level_claimed": {"category": level, "text": text, "design_ref": "DESIGN.md section " + ref},
            "level_note": note,
            "technique": tech,
        })
    else:
        na.append({"property_id": pid, "reason": "not claimed yet: the bounded-exhaustive check for this property is still under construction (the technique applies; see DESIGN.md section 5)"})
man = {
 "version": 1,
 "setup_cmd": "./setup.sh",
 "hooks": {"guard": "PERMUTA_VERIF", "enable": "no source hooks are needed: locks, caches and memo tables are reached from outside (mc/sched.py cooperative_locks, cache resets by name); the guard name is reserved and unused",
           "baseline_off_cmd": "cd /repo && /venv/bin/python -m pytest -ra -q -p no:cacheprovider --timeout=900 --continue-on-collection-errors",
           "source_commits": [], "add_only": True},
 "engines": [
  {"name": "mc", "path": "/verif/mc", "serves_properties": [c["property_id"] for c in checks],
   "kind_free_text": "hand-written explicit-state / stateless explorers in Python running the real library: E1 bounded exhaustive input enumeration against a reference model, E2 BFS over operation histories (mc/explore.py), E3 thread-schedule exploration with preemption bounding (mc/sched.py), E4 automata product exploration, E5 truncation-point enumeration"}],
 "checks": checks,
 "not_applicable": na,
 "notes": "All checks: ./check <id> --tier quick|thorough from /verif; VERIF_SEED rotates enumeration order only; VERIF_REPO overrides the repository under test. Known findings: /verif/known_findings.json.",
}
json.dump(man, open(os.path.join(V, "MANIFEST.json"), "w"), indent=1)
print("checks:", [c["property_id"] for c in checks], "not_applicable:", len(na))
