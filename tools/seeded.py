#!/venv/bin/python
"""Seeded property-breaking changes: confirm them and run the checks against them.

  seeded.py confirm <srcdir> <name>   srcdir holds patch.diff, demo.py, meta.json (written by an
                                      independent sub-agent).  Applies the patch to a FRESH scratch
                                      worktree of /repo HEAD, runs the unedited test suite (must
                                      pass), runs the demo on the patched tree (must fail) and on
                                      /repo (must pass); on success copies the three files to
                                      /verif/seeded/<name>/ and records what was run in meta.json.
  seeded.py run <name> [Cxx ...] [--tier quick|thorough]
                                      Applies seeded/<name>/patch.diff to a fresh scratch worktree and
                                      runs the named checks (default: the property in meta.json)
                                      with VERIF_REPO pointing there; records the result in
                                      meta.json["checks"].  /repo itself is never modified.
  seeded.py runall [--tier quick]     `run` for every directory under /verif/seeded.
Scratch worktrees live under /tmp/seedwt_* and are always removed.
"""
import json
import os
import shutil
import subprocess
import sys
import time

V = os.path.dirname(os.path.dirname(os.path.abspath(__file__)))
PY = "/venv/bin/python"


def sh(cmd, **kw):
    return subprocess.run(cmd, shell=isinstance(cmd, str), stdout=subprocess.PIPE,
                          stderr=subprocess.STDOUT, text=True, **kw)


class Worktree:
    def __init__(self, tag):
        self.dir = "/tmp/seedwt_%s_%d" % (tag, os.getpid())

    def __enter__(self):
        r = sh(["git", "-C", "/repo", "worktree", "add", "-q", "--detach", self.dir, "HEAD"])
        if r.returncode:
            raise SystemExit("worktree add failed: " + r.stdout)
        return self.dir

    def __exit__(self, *a):
        sh(["git", "-C", "/repo", "worktree", "remove", "--force", self.dir])
        shutil.rmtree(self.dir, ignore_errors=True)
        sh(["git", "-C", "/repo", "worktree", "prune"])


def apply_patch(wt, patch):
    r = sh(["git", "-C", wt, "apply", "--whitespace=nowarn", patch])
    if r.returncode:
        r = sh(["git", "-C", wt, "apply", "--3way", "--whitespace=nowarn", patch])
    return r


def confirm(src, name):
    patch, demo, meta = (os.path.join(src, f) for f in ("patch.diff", "demo.py", "meta.json"))
    for f in (patch, demo, meta):
        if not os.path.exists(f):
            raise SystemExit("missing " + f)
    m = json.load(open(meta))
    head = sh(["git", "-C", "/repo", "rev-parse", "--short", "HEAD"]).stdout.strip()
    out = {"repo_head": head}
    with Worktree(name) as wt:
        r = apply_patch(wt, patch)
        if r.returncode:
            print("PATCH DOES NOT APPLY\n" + r.stdout)
            return 1
        touched = sh(["git", "-C", wt, "status", "--short"]).stdout.split("\n")
        bad = [t for t in touched if t.strip() and not t.strip().split()[-1].startswith("permuta/")]
        if bad:
            print("patch touches files outside permuta/: %r" % bad)
            return 1
        t0 = time.time()
        r = sh("cd %s && %s -m pytest -q -p no:cacheprovider --timeout=900 -x 2>&1 | tail -3" % (wt, PY))
        out["suite"] = r.stdout.strip().split("\n")[-1]
        out["suite_s"] = round(time.time() - t0)
        if " passed" not in out["suite"] or "failed" in out["suite"] or "error" in out["suite"]:
            print("SUITE DOES NOT PASS on the patched tree: " + r.stdout)
            return 1
        r1 = sh([PY, demo, wt], cwd="/tmp")
        r2 = sh([PY, demo, "/repo"], cwd="/tmp")
        out["demo_patched"] = (r1.returncode, r1.stdout.strip()[-400:])
        out["demo_original"] = (r2.returncode, r2.stdout.strip()[-200:])
        if r1.returncode == 0 or r2.returncode != 0:
            print("DEMO does not separate: patched rc=%d original rc=%d\n%s\n%s"
                  % (r1.returncode, r2.returncode, r1.stdout[-500:], r2.stdout[-500:]))
            return 1
    dst = os.path.join(V, "seeded", name)
    os.makedirs(dst, exist_ok=True)
    shutil.copy(patch, os.path.join(dst, "patch.diff"))
    shutil.copy(demo, os.path.join(dst, "demo.py"))
    m["confirmed"] = out
    m["what_was_run"] = ("git apply on a fresh worktree of /repo@%s; pytest whole suite: %s; "
                         "demo.py <patched> -> rc %d; demo.py /repo -> rc 0"
                         % (head, out["suite"], out["demo_patched"][0]))
    json.dump(m, open(os.path.join(dst, "meta.json"), "w"), indent=1)
    print("confirmed %s: %s" % (name, out["suite"]))
    return 0


def run(name, checks, tier):
    dst = os.path.join(V, "seeded", name)
    m = json.load(open(os.path.join(dst, "meta.json")))
    checks = checks or [m["property"]]
    res = m.setdefault("checks", {})
    with Worktree(name) as wt:
        r = apply_patch(wt, os.path.join(dst, "patch.diff"))
        if r.returncode:
            print("PATCH DOES NOT APPLY to current HEAD\n" + r.stdout)
            return 1
        for c in checks:
            env = dict(os.environ, VERIF_REPO=wt)
            t0 = time.time()
            r = sh([os.path.join(V, "check"), c, "--tier", tier], env=env, cwd=V)
            viol = [ln for ln in r.stdout.split("\n") if ln.startswith("VIOLATION")]
            subs = sorted({ln.split("sub=")[1].split()[0] for ln in r.stdout.split("\n")
                           if ln.strip().startswith("sub=")})
            res["%s/%s" % (c, tier)] = {"exit": r.returncode, "violations": len(viol),
                                        "subs": subs, "wall_s": round(time.time() - t0)}
            print("%s %s/%s: exit=%d %s %s" % (name, c, tier, r.returncode,
                                               "DETECTED" if r.returncode == 1 and viol else "missed",
                                               subs))
    json.dump(m, open(os.path.join(dst, "meta.json"), "w"), indent=1)
    # the evidence files were rewritten by runs against a mutant: they must be regenerated
    return 0


def main():
    a = sys.argv[1:]
    tier = "quick"
    if "--tier" in a:
        i = a.index("--tier")
        tier = a[i + 1]
        del a[i:i + 2]
    if a[0] == "confirm":
        return confirm(a[1], a[2])
    if a[0] == "run":
        return run(a[1], a[2:], tier)
    if a[0] == "runall":
        rc = 0
        for name in sorted(os.listdir(os.path.join(V, "seeded"))):
            if os.path.exists(os.path.join(V, "seeded", name, "meta.json")):
                rc |= run(name, [], tier)
        return rc
    raise SystemExit(__doc__)


if __name__ == "__main__":
    sys.exit(main())
