#!/bin/bash
# full sweep of one tier over the listed checks (default all), one after the other; log to stdout
tier=${1:-thorough}; shift
ids=${@:-C01 C02 C03 C04 C05 C06 C07 C08 C09 C10 C11 C12 C13 C14 C15 C16 C17 C18 C19 C20}
cd "$(dirname "$0")/.."
for id in $ids; do
  s=$(date +%s)
  out=$(./check $id --tier $tier 2>&1); rc=$?
  e=$(date +%s)
  echo "$out" | grep -E "^$id $tier:|VIOLATION|HARNESS|KNOWN-FINDING" | cut -c1-300
  echo "$id rc=$rc wall=$((e-s))"
done
