#!/venv/bin/python
"""Final counts/times table for DESIGN.md 10.3b from two sweep logs (tools/sweep.sh output):
usage: mkfinaltable.py <quick log> <thorough log> > .work/design_final_table.md"""
import re, sys
def parse(path):
    out = {}
    for ln in open(path):
        m = re.match(r"(C\d\d) (quick|thorough): (\w+)\s+evaluations=(\d+) nontrivial=(\d+) states=(\d+) transitions=(\d+) violations=(\d+) known=(\d+) wall=([\d.]+)s", ln)
        if m:
            out[m.group(1)] = dict(status=m.group(3), ev=int(m.group(4)), nt=int(m.group(5)), st=int(m.group(6)),
                                   tr=int(m.group(7)), viol=int(m.group(8)), known=int(m.group(9)), wall=float(m.group(10)))
    return out
def fmt(n):
    if n >= 10**6:
        return "%.1f M" % (n / 1e6)
    if n >= 10**4:
        return "%d k" % round(n / 1e3)
    return str(n)
q, t = parse(sys.argv[1]), parse(sys.argv[2])
print("Final state (all twenty `ok` in both tiers; quick on the otherwise idle 16-core sandbox, thorough\nfrom the final full sweep `notes/thorough_sweep_final.txt`; evaluations = cases compared with a\nreference, states/transitions = explored by E2/E3/E4/E6 searches; known = listed findings hit):\n")
print("| id | quick: evaluations (states / transitions), wall | thorough: evaluations (states / transitions), wall | known findings hit |")
print("|---|---|---|---|")
tq = tt = 0
for i in range(1, 21):
    k = "C%02d" % i
    a, b = q.get(k), t.get(k)
    def cell(x):
        if not x:
            return "not run"
        s = fmt(x["ev"])
        if x["st"] or x["tr"]:
            s += " (%s / %s)" % (fmt(x["st"]), fmt(x["tr"]))
        return "%s, %d s%s" % (s, round(x["wall"]), "" if x["status"] == "ok" else " **" + x["status"] + "**")
    tq += a["wall"] if a else 0
    tt += b["wall"] if b else 0
    print("| %s | %s | %s | %s |" % (k, cell(a), cell(b), (a or b or {}).get("known", "")))
print("| total | %d s (%.1f min) | %d s (%.0f min) | |" % (tq, tq / 60, tt, tt / 60))
